"""
Re-implementation of the CommonMark test driver's normalize.py (whitespace
collapsed outside <pre>, stripped around block-level tags, attributes sorted,
character references canonicalised; href / src compared as written, see LENIENT_URLS).  Both sides of
every comparison pass through the same function, so it can only merge outputs,
never split them.
"""
import html as _html
import re
import urllib.parse
from html.entities import name2codepoint
from html.parser import HTMLParser

_ws = re.compile(r'\s+')

BLOCK_TAGS = frozenset([
    'article', 'header', 'aside', 'hgroup', 'blockquote', 'hr', 'iframe', 'body', 'li', 'map', 'button',
    'object', 'canvas', 'ol', 'caption', 'output', 'col', 'p', 'colgroup', 'pre', 'dd', 'progress', 'div',
    'section', 'dl', 'table', 'td', 'dt', 'tbody', 'embed', 'textarea', 'fieldset', 'tfoot', 'figcaption',
    'th', 'figure', 'thead', 'footer', 'tr', 'form', 'ul', 'h1', 'h2', 'h3', 'h4', 'h5', 'h6', 'video',
    'script', 'style'])


# the specification's driver means to compare href / src after unquote -> quote, but its test is on the attribute *value*
# (`if v in ['href', 'src']`), so it never does: URLs are compared as written, like every other attribute
LENIENT_URLS = False


class _Norm(HTMLParser):
    def __init__(self):
        super().__init__(convert_charrefs=False)
        self.last = 'starttag'
        self.in_pre = False
        self.out = []
        self.last_tag = ''

    def _rstrip(self):
        while self.out:
            s = self.out[-1].rstrip()
            if s:
                self.out[-1] = s
                return
            self.out.pop()

    def handle_data(self, data):
        after_tag = self.last in ('endtag', 'starttag')
        after_block = after_tag and self.last_tag in BLOCK_TAGS
        if after_tag and self.last_tag == 'br':
            data = data.lstrip('\n')
        if not self.in_pre:
            data = _ws.sub(' ', data)
        if after_block and not self.in_pre:
            if self.last == 'starttag':
                data = data.lstrip()
            elif self.last == 'endtag':
                data = data.strip()
        self.out.append(data)
        self.last = 'data'

    def handle_endtag(self, tag):
        if tag == 'pre':
            self.in_pre = False
        elif tag in BLOCK_TAGS:
            self._rstrip()
        self.out.append('</' + tag + '>')
        self.last_tag = tag
        self.last = 'endtag'

    def handle_starttag(self, tag, attrs):
        if tag == 'pre':
            self.in_pre = True
        if tag in BLOCK_TAGS:
            self._rstrip()
        s = '<' + tag
        for k, v in sorted(attrs, key=lambda kv: (kv[0], kv[1] or '')):
            s += ' ' + k
            if v is not None:
                if k in ('href', 'src') and LENIENT_URLS:
                    s += '="' + urllib.parse.quote(urllib.parse.unquote(v), safe='/') + '"'
                else:
                    s += '="' + _html.escape(_html.unescape(v), quote=True) + '"'
        s += '>'
        self.out.append(s)
        self.last_tag = tag
        self.last = 'starttag'

    def handle_startendtag(self, tag, attrs):
        self.handle_starttag(tag, attrs)
        self.last_tag = tag
        self.last = 'endtag'

    def handle_comment(self, data):
        self.out.append('<!--' + data + '-->')
        self.last = 'comment'

    def handle_decl(self, data):
        self.out.append('<!' + data + '>')
        self.last = 'decl'

    def unknown_decl(self, data):
        self.out.append('<![' + data + ']>')
        self.last = 'decl'

    def handle_pi(self, data):
        self.out.append('<?' + data + '>')
        self.last = 'pi'

    def _char(self, c, fallback):
        if c == '<':
            self.out.append('&lt;')
        elif c == '>':
            self.out.append('&gt;')
        elif c == '&':
            self.out.append('&amp;')
        elif c == '"':
            self.out.append('&quot;')
        elif c is None:
            self.out.append(fallback)
        else:
            self.out.append(c)

    def handle_entityref(self, name):
        try:
            c = chr(name2codepoint[name])
        except KeyError:
            c = None
        self._char(c, '&' + name + ';')
        self.last = 'ref'

    def handle_charref(self, name):
        try:
            if name.startswith(('x', 'X')):
                c = chr(int(name[1:], 16))
            else:
                c = chr(int(name))
        except (ValueError, OverflowError):
            c = None
        self._char(c, '&' + name + ';')
        self.last = 'ref'


def normalize(html_text):
    p = _Norm()
    try:
        p.feed(html_text)
        p.close()
    except Exception:
        # html.parser is lenient; should it ever choke, fall back to identity
        return html_text
    # text nodes may be split arbitrarily by the parser: merge before comparing
    return ''.join(p.out)


def normalize_ws(html_text):
    """normalize + collapse every whitespace run outside <pre> to one space and
    drop spaces next to tags (used by C10, where soft breaks may move)."""
    s = normalize(html_text)
    parts = re.split(r'(<pre>.*?</pre>)', s, flags=re.S)
    out = []
    for i, part in enumerate(parts):
        if i % 2 == 1:
            out.append(part)
        else:
            part = _ws.sub(' ', part)
            out.append(part)
    return ''.join(out)
