"""
Thin layer over icontract (bootstrapped into .deps by ./check).  When the wheel
cannot be installed the same two decorators are provided locally so that a
packaging hiccup can never turn into an alarm.  Every contract counts its
evaluations; a run whose deciding contract was evaluated zero times is
inconclusive.
"""
import functools

try:
    import icontract
    BACKEND = 'icontract ' + getattr(icontract, '__version__', '?')
except Exception:  # pragma: no cover
    icontract = None
    BACKEND = 'local-fallback'

EVALS = {}


class ContractBroken(Exception):
    pass


def counted(name, cond):
    """Wrap a condition so that its evaluations are counted under ``name``."""
    @functools.wraps(cond)
    def wrapper(*a, **k):
        EVALS[name] = EVALS.get(name, 0) + 1
        return cond(*a, **k)
    return wrapper


def invariant(cls, cond, name, error=ContractBroken):
    """Class invariant: ``cond(self)`` after __init__ and public methods."""
    c = counted(name, cond)
    if icontract is not None:
        return icontract.invariant(c, error=lambda self: error(name))(cls)
    init = cls.__init__

    @functools.wraps(init)
    def __init__(self, *a, **k):
        init(self, *a, **k)
        if not c(self):
            raise error(name)
    cls.__init__ = __init__
    return cls
