"""
Transcription of the CommonMark 0.30 "process emphasis" procedure for inline
text that contains no construct other than '*' / '_' delimiter runs.
Independent of mistletoe.  Self-validated against the spec corpus on every
C06 run (a disagreement there makes the run inconclusive, never a violation).

Spec clauses: 6.2 (left/right flanking, rules 1-17), appendix "An algorithm
for parsing nested emphasis and links" (openers_bottom per delimiter kind,
indexed by closer-can-open and closer length mod 3; rule of three on the
ORIGINAL run lengths).
"""
import unicodedata

ASCII_PUNCT = set('!"#$%&\'()*+,-./:;<=>?@[\\]^_`{|}~')


def is_ws(c):
    # 2.1: Unicode whitespace = Zs, tab, LF, FF, CR.  None = start/end of line.
    return c is None or c in '\t\n\x0c\r' or unicodedata.category(c) == 'Zs'


def is_punct(c):
    return c is not None and (c in ASCII_PUNCT or unicodedata.category(c).startswith('P'))


class Delim:
    __slots__ = ('ch', 'num', 'orig', 'can_open', 'can_close')

    def __init__(self, ch, num, can_open, can_close):
        self.ch, self.num, self.orig, self.can_open, self.can_close = ch, num, num, can_open, can_close


class Elem:
    __slots__ = ('tag', 'children')

    def __init__(self, tag, children):
        self.tag, self.children = tag, children


def scan(text):
    nodes = []
    i, n = 0, len(text)
    buf = []
    while i < n:
        c = text[i]
        if c in '*_':
            j = i
            while j < n and text[j] == c:
                j += 1
            before = text[i - 1] if i > 0 else None
            after = text[j] if j < n else None
            left = (not is_ws(after)) and (not is_punct(after) or is_ws(before) or is_punct(before))
            right = (not is_ws(before)) and (not is_punct(before) or is_ws(after) or is_punct(after))
            if c == '*':
                can_open, can_close = left, right
            else:
                can_open = left and (not right or is_punct(before))
                can_close = right and (not left or is_punct(after))
            if buf:
                nodes.append(''.join(buf))
                buf = []
            nodes.append(Delim(c, j - i, can_open, can_close))
            i = j
        else:
            buf.append(c)
            i += 1
    if buf:
        nodes.append(''.join(buf))
    return nodes


def process(nodes):
    """nodes: list of str | Delim.  Returns list of str | Elem."""
    stack = [x for x in nodes if isinstance(x, Delim)]
    bottoms = {}           # (ch, closer_can_open, closer_orig % 3) -> Delim or None (= below everything)
    stats = {'matches': 0, 'rule_of_three': 0, 'bottom_hits': 0, 'partial': 0}
    ci = 0
    while ci < len(stack):
        closer = stack[ci]
        if not closer.can_close:
            ci += 1
            continue
        key = (closer.ch, closer.can_open, closer.orig % 3)
        bottom = bottoms.get(key, 'none')
        oi = ci - 1
        found = None
        while oi >= 0:
            opener = stack[oi]
            if bottom != 'none' and opener is bottom:
                stats['bottom_hits'] += 1
                break
            if opener.ch == closer.ch and opener.can_open:
                odd = ((closer.can_open or opener.can_close) and closer.orig % 3 != 0
                       and (opener.orig + closer.orig) % 3 == 0)
                if not odd:
                    found = oi
                    break
                stats['rule_of_three'] += 1
            oi -= 1
        if found is not None:
            opener = stack[found]
            use = 2 if closer.num >= 2 and opener.num >= 2 else 1
            a = nodes.index(opener)
            b = nodes.index(closer)
            inner = nodes[a + 1:b]
            # delimiters strictly between opener and closer become literal text
            inner = [(x.ch * x.num if isinstance(x, Delim) else x) for x in inner]
            nodes[a + 1:b] = [Elem('strong' if use == 2 else 'em', inner)]
            del stack[found + 1:ci]
            ci = found + 1
            opener.num -= use
            closer.num -= use
            stats['matches'] += 1
            if opener.num and True:
                stats['partial'] += 1
            if opener.num == 0:
                nodes.remove(opener)
                del stack[found]
                ci -= 1
            if closer.num == 0:
                nodes.remove(closer)
                del stack[ci]
            # else: same closer is examined again
        else:
            bottoms[key] = stack[ci - 1] if ci > 0 else None
            if bottoms[key] is None:
                bottoms[key] = 'floor'
            if not closer.can_open:
                del stack[ci]
            else:
                ci += 1
    out = [(x.ch * x.num if isinstance(x, Delim) else x) for x in nodes]
    return out, stats


def _esc(s):
    return s.replace('&', '&amp;').replace('<', '&lt;').replace('>', '&gt;')


def to_html(nodes):
    out = []
    for x in nodes:
        if isinstance(x, Elem):
            out.append('<%s>%s</%s>' % (x.tag, to_html(x.children), x.tag))
        else:
            out.append(_esc(x))
    return ''.join(out)


def render(text):
    """Expected inline HTML for ``text`` (no other inline syntax present)."""
    nodes, stats = process(scan(text))
    return to_html(nodes), stats
