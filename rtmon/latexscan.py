"""
Tokenizer for the LaTeX renderer's output (C17), independent of mistletoe.

Document text is made visible by *taint sentinels*: before rendering, every
text-carrying attribute of the parsed tree is bracketed with a pair of
private-use characters naming its origin.  In the output, the bracketed regions
are exactly the characters that "come from document text".

    T  RawText rendered as ordinary text          must be escaped
    V  RawText rendered verbatim (\\verb, lstlisting)  must not contain its terminator
    M  Math content (passed through by design)    set aside
    S  Image.src                                  must be escaped
    L  CodeFence.language                         must be escaped
"""
import re

SENT = {
    'T': ('\ue000', '\ue001'), 'V': ('\ue002', '\ue003'), 'M': ('\ue004', '\ue005'),
    'S': ('\ue006', '\ue007'), 'L': ('\ue008', '\ue009'),
}
ALL_SENTINELS = ''.join(a + b for a, b in SENT.values())
OPEN = {a: k for k, (a, b) in SENT.items()}
CLOSE = {k: b for k, (a, b) in SENT.items()}
ORIGIN = {'T': 'RawText', 'V': 'verbatim RawText', 'M': 'Math.content', 'S': 'Image.src', 'L': 'CodeFence.language'}

CONTROL_WORDS = {
    'documentclass', 'usepackage', 'begin', 'end', 'textbf', 'textit', 'verb', 'sout', 'includegraphics', 'href', 'url',
    'section', 'subsection', 'subsubsection', 'item', 'hline', 'hrulefill', 'newline',
    # escapes for characters that have no one-character escape
    'textbackslash', 'textasciicircum', 'textasciitilde',
}
ESCAPED_CHARS = set('$#{}&_%^\\~')
# inside a tainted text region: anything but specials, or one of the renderer's escapes
TAINT_OK = re.compile(r'(?:[^\\$#{}&_%^]|\\[$#{}&_%]|\\\^\{\}|\\textbackslash\{\}|\\textasciicircum\{\})*\Z')
URL_OK = re.compile(r'(?:[A-Za-z0-9_.\-~/:()*?=@+,&;!\'\[\]]|\\%|\\#)*\Z')


class Problem(Exception):
    def __init__(self, clause, key, msg):
        super().__init__(msg)
        self.clause, self.key, self.msg = clause, key, msg


def first_bad_special(region):
    i = 0
    n = len(region)
    while i < n:
        c = region[i]
        if c == '\\':
            for esc in ('\\textbackslash{}', '\\textasciicircum{}', '\\^{}'):
                if region.startswith(esc, i):
                    i += len(esc)
                    break
            else:
                if i + 1 < n and region[i + 1] in '$#{}&_%':
                    i += 2
                else:
                    return '\\'
            continue
        if c in '$#{}&_%^':
            return c
        i += 1
    return None


def scan(out, stats=None):
    """Raises Problem on the first deviation."""
    if stats is None:
        stats = {}

    def bump(k, n=1):
        stats[k] = stats.get(k, 0) + n
    i, n = 0, len(out)
    stack = []
    amps = 0
    while i < n:
        c = out[i]
        if c in OPEN:
            kind = OPEN[c]
            j = out.find(CLOSE[kind], i + 1)
            if j < 0:
                raise Problem('taint-region-unterminated', ORIGIN[kind], out[i:i + 60])
            region = out[i + 1:j]
            if any(s in region for s in ALL_SENTINELS):
                raise Problem('taint-region-nested', ORIGIN[kind], out[i:i + 80])
            bump('tainted:' + ORIGIN[kind])
            if kind == 'M':
                # set aside - but it has to BE a math span: $..$ or $$..$$ with something in between and no $ inside
                if not re.fullmatch(r'(\${1,2})[^$]+\1', region):
                    raise Problem('math-region-malformed', 'not of the form $..$ / $$..$$', out[max(0, i - 30):j + 30])
            elif kind == 'V':
                raise Problem('verbatim-text-outside-verbatim-region', ORIGIN[kind], out[max(0, i - 30):i + 60])
            else:
                bad = first_bad_special(region)
                for ch in '$#{}&_%^\\':
                    if ch in region:
                        bump('special-in-%s:%s' % (ORIGIN[kind], ch))
                if bad is not None:
                    raise Problem('unescaped-special-from-text', 'origin=%s char=%s' % (ORIGIN[kind], bad), out[max(0, i - 30):j + 30])
            i = j + 1
            continue
        if c in ALL_SENTINELS:
            raise Problem('taint-region-unbalanced', 'stray closing sentinel', out[max(0, i - 30):i + 30])
        if c == '\\':
            m = re.compile(r'[A-Za-z]+').match(out, i + 1)
            if not m:
                nxt = out[i + 1:i + 2]
                if nxt in ESCAPED_CHARS:
                    i += 2
                    continue
                raise Problem('stray-backslash', 'before %r' % nxt, out[max(0, i - 30):i + 30])
            w = m.group(0)
            i = m.end()
            if w not in CONTROL_WORDS:
                raise Problem('control-word-outside-vocabulary', '\\' + w[:20], out[max(0, i - 40):i + 30])
            bump('cw:' + w)
            if w == 'verb':
                d = out[i:i + 1]
                if d == '' or d in ALL_SENTINELS or d.isalpha() or d == ' ' or d == '*':
                    raise Problem('verb-delimiter-invalid', repr(d), out[max(0, i - 20):i + 40])
                vo, vc = SENT['V']
                if out[i + 1:i + 2] != vo:
                    raise Problem('verb-content-not-from-code-span', '', out[max(0, i - 20):i + 40])
                j = out.find(vc, i + 2)
                if j < 0 or out[j + 1:j + 2] != d:
                    raise Problem('verb-region-malformed', '', out[max(0, i - 20):i + 60])
                content = out[i + 2:j]
                if d in content or '\n' in content:
                    raise Problem('verbatim-terminator-inside-text', '\\verb delimiter or newline inside code span', out[max(0, i - 20):j + 10])
                bump('verbatim:verb')
                i = j + 2
                continue
            if w in ('href', 'url'):
                if out[i:i + 1] != '{':
                    raise Problem('url-argument-missing', w, out[max(0, i - 20):i + 40])
                j = i + 1
                while j < n and not (out[j] == '}' and out[j - 1] != '\\'):
                    j += 1
                url = out[i + 1:j]
                if not URL_OK.match(url):
                    bad = next((ch for ch in url if not URL_OK.match(ch) and ch != '\\'), '?')
                    raise Problem('unescaped-special-from-text', 'origin=URL of \\%s char=%s' % (w, bad), out[max(0, i - 20):j + 10])
                bump('url-arguments')
                i = j + 1
                continue
            if w in ('begin', 'end'):
                m2 = re.compile(r'\{([A-Za-z*]+)\}').match(out, i)
                if not m2:
                    raise Problem('environment-name-malformed', w, out[max(0, i - 20):i + 40])
                name = m2.group(1)
                i = m2.end()
                if w == 'begin':
                    stack.append(('env', name))
                    bump('env:' + name)
                    if name == 'lstlisting':
                        # [language=<L-tainted>] newline <V-tainted body> \end{lstlisting}
                        if out.startswith('[language=', i):
                            k = i + len('[language=')
                            lo, lc = SENT['L']
                            if out[k:k + 1] == lo:
                                j = out.find(lc, k)
                                if j < 0:
                                    raise Problem('taint-region-unterminated', ORIGIN['L'], out[i:i + 60])
                                lang = out[k + 1:j]
                                bump('tainted:' + ORIGIN['L'])
                                bad = first_bad_special(lang)
                                if bad is None and ']' in lang:
                                    bad = ']'
                                if bad is not None:
                                    raise Problem('unescaped-special-from-text', 'origin=CodeFence.language char=%s' % bad, out[i:j + 20])
                                k = j + 1
                            if out[k:k + 1] != ']':
                                raise Problem('lstlisting-option-malformed', '', out[i:i + 60])
                            i = k + 1
                        vo, vc = SENT['V']
                        if out[i:i + 2] != '\n' + vo:
                            raise Problem('lstlisting-body-not-from-code-block', '', out[max(0, i - 20):i + 40])
                        j = out.find(vc, i + 2)
                        if j < 0:
                            raise Problem('taint-region-unterminated', ORIGIN['V'], out[i:i + 60])
                        body = out[i + 2:j]
                        if '\\end{lstlisting}' in body:
                            raise Problem('verbatim-terminator-inside-text', '\\end{lstlisting} inside code block', body[:120])
                        bump('verbatim:lstlisting')
                        i = j + 1
                else:
                    if not stack or stack[-1] != ('env', name):
                        raise Problem('environment-nesting', '\\end{%s} with open %r' % (name, stack[-3:]), out[max(0, i - 60):i + 20])
                    stack.pop()
                continue
            continue
        if c == '{':
            stack.append('{')
        elif c == '}':
            if not stack or stack[-1] != '{':
                raise Problem('group-nesting', '} with open %r' % (stack[-3:],), out[max(0, i - 40):i + 20])
            stack.pop()
        elif c in '$#_%^':
            raise Problem('unescaped-special-outside-text', c, out[max(0, i - 40):i + 20])
        elif c == '&':
            if not any(e == ('env', 'tabular') for e in stack):
                raise Problem('unescaped-special-outside-text', '& outside tabular', out[max(0, i - 40):i + 20])
            amps += 1
        i += 1
    if stack:
        raise Problem('unclosed-at-end', repr(stack[-4:]), out[-80:])
    stats['structural_ampersands'] = stats.get('structural_ampersands', 0) + amps
    return stats
