"""
Input sources S1 (spec corpus), S2 (mutation / splice), S4 (hostile random
strings), S6 (stress shapes).  S3 (the grammar generator G) lives in gen.py,
S5 enumerators in the properties that use them.
All randomness comes from the rng passed in.
"""
import glob
import itertools
import json
import os

from .core import HOME, REPO

_spec = None


def spec():
    global _spec
    if _spec is None:
        with open(os.path.join(HOME, 'vendor', 'commonmark-0.30.json'), encoding='utf-8') as f:
            _spec = json.load(f)
    return _spec


_samples = None


def sample_files():
    """Markdown files shipped with the repository (realistic documents)."""
    global _samples
    if _samples is None:
        out = []
        for pat in ('test/samples/*.md', 'README.md', 'dev-guide.md', 'CONTRIBUTING.md', 'performance.md'):
            for p in sorted(glob.glob(os.path.join(REPO, pat))):
                try:
                    with open(p, encoding='utf-8') as f:
                        out.append((os.path.relpath(p, REPO), f.read()))
                except OSError:
                    pass
        _samples = out
    return _samples


# Markdown-significant alphabet -------------------------------------------------
SIG = list('*_`~[]()<>!#-+=|\\&;:"\'./ \t\n0123456789') + ['    ', '> ', '- ', '1. ', '```', '***', '~~~', '[a]: ', '\n\n']
NONASCII = list('éßΣжσς中Ǆ') + list('«»–…¡¿‹›„') + [' ', ' ', '　', ' ']
WORDS = ['foo', 'bar', 'baz', 'a', 'b', 'Lorem', 'ipsum', 'é', 'ß', '中文', 'x1', 'http://a.b/c?d=e&f', 'a@b.c',
         '&amp;', '&#35;', '&#x22;', '&copy', '<b>', '</b>', '<!-- c -->', '<?p?>', '<![CDATA[x]]>', '<a href="x">',
         '$x$', '$$', '[[a|b]]', '{{m}}', '{{/m}}', '\\', '\\*', '\\\\', '\\[', '%', '^', '{', '}', '$', '#']
MARKERS = ['*', '**', '***', '_', '__', '___', '`', '``', '```', '~~', '[', ']', '](', ')', '![', '<', '>', '&#', '&', ';',
           '>>>', '1.', '1)', '-', '+', '#', '##', '=', '==', '---', '===', '|', '|-|', ':-:', '    ', '\t', '  \n', '\\\n']
LINE_PREFIX = ['', '', '', ' ', '  ', '   ', '    ', '\t', '> ', '>', '> > ', '>>', '- ', '+ ', '* ', '1. ', '2) ', '10. ', '-\t',
               '  - ', '    - ', '   > ', '# ', '## ', '###### ', '####### ', '```', '~~~', '````', '    ', '|', '[x]: ', '[x]:',
               '<div>', '<!--', '<pre>', '</div>', '<?', '<!A', '<![CDATA[', '<a>', '---', '***', '===', '- - -', '_ _ _', '.', ')', '1.', '-']


def randstr(rng, maxlen=200):
    """Hostile character soup, weighted towards marker runs."""
    n = rng.choice((0, 1, 2, 3, 5, 8, 13, 21, 34, 55, 89, maxlen // 2, maxlen))
    n = rng.randint(0, max(0, n))
    out = []
    size = 0
    while size < n:
        r = rng.random()
        if r < 0.35:
            t = rng.choice(MARKERS)
        elif r < 0.60:
            t = rng.choice(WORDS)
        elif r < 0.80:
            t = rng.choice(SIG)
        elif r < 0.88:
            t = rng.choice(NONASCII)
        elif r < 0.94:
            t = '\n'
        else:
            t = ' '
        out.append(t)
        size += len(t)
    return ''.join(out)[:maxlen]


def randlines(rng, maxlines=12, maxlen=40):
    """Line-structured hostile input: random line prefixes x random bodies."""
    lines = []
    for _ in range(rng.randint(0, maxlines)):
        r = rng.random()
        if r < 0.12:
            lines.append('')
            continue
        if r < 0.16:
            lines.append(rng.choice(('  ', '\t', ' ', '    ')))
            continue
        pre = ''.join(rng.choice(LINE_PREFIX) for _ in range(rng.choice((0, 1, 1, 1, 2, 2, 3))))
        body = randstr(rng, rng.choice((0, 3, 8, maxlen)))
        lines.append((pre + body).replace('\n', ' ') if rng.random() < 0.9 else pre + body)
    text = '\n'.join(lines)
    if rng.random() < 0.8:
        text += '\n'
    return text


def mutate(rng, text, n=None):
    """Small structural edits of a (usually well-formed) document."""
    if n is None:
        n = rng.choice((1, 1, 1, 2, 2, 3, 5))
    for _ in range(n):
        lines = text.split('\n')
        op = rng.randrange(12)
        if op == 0 and text:           # delete a character
            i = rng.randrange(len(text))
            text = text[:i] + text[i + 1:]
        elif op == 1:                  # insert a significant token
            i = rng.randint(0, len(text))
            text = text[:i] + rng.choice(MARKERS + SIG) + text[i:]
        elif op == 2 and text:         # replace a character
            i = rng.randrange(len(text))
            text = text[:i] + rng.choice(SIG + NONASCII) + text[i + 1:]
        elif op == 3 and lines:        # delete a line
            del lines[rng.randrange(len(lines))]
            text = '\n'.join(lines)
        elif op == 4 and lines:        # duplicate a line
            i = rng.randrange(len(lines))
            lines.insert(i, lines[i])
            text = '\n'.join(lines)
        elif op == 5 and len(lines) > 1:  # swap two lines
            i, j = rng.randrange(len(lines)), rng.randrange(len(lines))
            lines[i], lines[j] = lines[j], lines[i]
            text = '\n'.join(lines)
        elif op == 6 and lines:        # indent / dedent a line
            i = rng.randrange(len(lines))
            k = rng.randint(1, 5)
            if rng.random() < 0.6:
                lines[i] = ' ' * k + lines[i]
            else:
                lines[i] = lines[i][min(k, len(lines[i]) - len(lines[i].lstrip(' '))):]
            text = '\n'.join(lines)
        elif op == 7 and lines:        # wrap a line range in a container marker
            i = rng.randrange(len(lines))
            j = rng.randint(i, min(len(lines), i + 4))
            m = rng.choice(('> ', '>', '- ', '1. ', '    ', '  ', '* '))
            for k in range(i, j):
                lines[k] = (m if (k == i or m.strip() in ('>', '')) else ' ' * len(m)) + lines[k]
            text = '\n'.join(lines)
        elif op == 8 and text:         # truncate (unclosed constructs)
            text = text[:rng.randrange(len(text))]
        elif op == 9 and lines:        # insert blank / whitespace-only line
            lines.insert(rng.randrange(len(lines) + 1), rng.choice(('', '', ' ', '  ', '\t')))
            text = '\n'.join(lines)
        elif op == 10 and text:        # duplicate a slice
            i = rng.randrange(len(text))
            j = min(len(text), i + rng.randint(1, 12))
            text = text[:j] + text[i:j] + text[j:]
        elif op == 11 and lines:       # line prefix
            i = rng.randrange(len(lines))
            lines[i] = rng.choice(LINE_PREFIX) + lines[i]
            text = '\n'.join(lines)
    return text


def splice(rng, a, b):
    sep = rng.choice(('', '\n', '\n\n'))
    if not a.endswith('\n'):
        a += '\n'
    return a + sep + b


def corpus_text(rng):
    """A base document: spec example (mostly) or a slice of a sample file."""
    if rng.random() < 0.85:
        return rng.choice(spec())['markdown']
    name, text = rng.choice(sample_files())
    lines = text.split('\n')
    i = rng.randrange(len(lines))
    return '\n'.join(lines[i:i + rng.randint(1, 25)]) + '\n'


def mixed(rng, maxlen=400):
    """One input from the union S1/S2/S4 (weights chosen for variety)."""
    r = rng.random()
    if r < 0.10:
        return 'spec', rng.choice(spec())['markdown']
    if r < 0.40:
        return 'mutated', mutate(rng, corpus_text(rng))
    if r < 0.50:
        return 'spliced', splice(rng, mutate(rng, corpus_text(rng), rng.choice((0, 1))), mutate(rng, corpus_text(rng), rng.choice((0, 1))))
    if r < 0.75:
        return 'randlines', randlines(rng)
    return 'randstr', randstr(rng, maxlen)


# property-wide alphabet restriction: no lone surrogates / NUL; only '\n' line ends
BAD_LINE_ENDS = '\r'          # the only other Markdown line ending; FF, VT, FS, GS, RS, NEL, LS, PS are ordinary characters
SPLITLINES_ONLY = '\x0b\x0c\x1c\x1d\x1e\x85\u2028\u2029'     # where str.splitlines() splits although Markdown does not end a line


def lines_of(text, keepends=True):
    """The lines of ``text`` as Markdown sees them when '\\n' is the only line ending (never str.splitlines())."""
    parts = text.split('\n')
    if parts and parts[-1] == '':
        parts.pop()
        return [p + '\n' for p in parts] if keepends else parts
    return [p + '\n' for p in parts[:-1]] + [parts[-1]] if keepends else parts


def only_lf(text):
    return not any(c in text for c in BAD_LINE_ENDS)


def clean_lf(text):
    for c in BAD_LINE_ENDS:
        text = text.replace(c, ' ')
    return text.replace('\x00', ' ')


# stress shapes -----------------------------------------------------------------

def stress_shapes(limit=4096):
    """cmark-style pathological families, each scaled to at most ``limit`` chars.
    Yields (name, depth_by_construction, text)."""
    def rep(unit, tail=''):
        k = max(1, (limit - len(tail)) // max(1, len(unit)))
        return unit * k + tail

    def cap(s):
        return s[:limit]

    fam = [
        ('open-brackets', 0, rep('[')),
        ('close-brackets', 0, rep(']')),
        ('bracket-pairs', 0, rep('[]')),
        ('open-link', 0, rep('[a](')),
        ('open-link-title', 0, rep('[a](b "')),
        ('nested-brackets-closed', 0, cap('[' * 2000 + 'a' + ']' * 2000)),
        ('image-open', 0, rep('![')),
        ('emph-openers', 0, rep('*a **a ')),
        ('emph-closers', 0, rep('a* a** ')),
        ('emph-alternate', 0, rep('*a_ ')),
        ('emph-under', 0, rep('_a __a ')),
        ('emph-mixed-runs', 0, rep('***a__ ')),
        ('star-run', 0, rep('*')),
        ('underscore-run', 0, rep('_')),
        ('star-a', 0, rep('*a')),
        ('a-star-pairs', 0, rep('**a**')),
        ('backtick-growing', 0, cap(' '.join('`' * k for k in range(1, 90)))),
        ('backtick-growing-text', 0, cap(''.join('`' * k + 'a' for k in range(1, 89)))),
        ('backtick-run', 0, rep('`')),
        ('backtick-unclosed-many', 0, rep('`a ')),
        ('tilde-pairs', 0, rep('~~a')),
        ('tilde-run', 0, rep('~')),
        ('html-comment-open', 0, rep('<!--')),
        ('html-comment-dashes', 0, cap('<!--' + '-' * 4000)),
        ('html-open-attr', 0, rep('<a b="c" ')),
        ('html-open-tags', 0, rep('<a>')),
        ('html-lt', 0, rep('<')),
        ('html-pi', 0, rep('<?')),
        ('html-decl', 0, rep('<!A')),
        ('html-cdata', 0, rep('<![CDATA[')),
        ('amp', 0, rep('&')),
        ('entity-like', 0, rep('&a;')),
        ('entity-num', 0, rep('&#1;')),
        ('autolink-open', 0, rep('<http://a')),
        ('autolink-email', 0, cap('<' + 'a' * 2000 + '@' + 'b' * 2000 + '>')),
        ('backslashes', 0, rep('\\')),
        ('backslash-star', 0, rep('\\*')),
        ('pipes', 0, rep('|')),
        ('table-wide', 0, cap('|' + 'a|' * 600 + '\n|' + '-|' * 600 + '\n|' + 'b|' * 600 + '\n')),
        ('table-many-rows', 0, cap('a|b\n-|-\n' + 'c|d\n' * 1000)),
        ('long-line', 0, 'a' * limit),
        ('long-line-words', 0, rep('ab ')),
        ('empty-lines', 0, '\n' * limit),
        ('tab-lines', 0, rep('\t\n')),
        ('space-lines', 0, rep('   \n')),
        ('trailing-spaces', 0, cap('a' + ' ' * 4000 + '\nb\n')),
        ('hard-breaks', 0, rep('a  \n')),
        ('setext-candidates', 0, rep('a\n=\n')),
        ('hr-candidates', 0, rep('- - -\n')),
        ('hr-long', 0, cap('- ' * 2000 + '\n')),
        ('atx-many', 0, rep('# a\n')),
        ('fence-unclosed', 0, cap('```\n' + 'a\n' * 2000)),
        ('fence-many', 0, rep('```\n')),
        ('fence-long', 0, cap('`' * 2000 + '\na\n' + '`' * 2000 + '\n')),
        ('refdefs', 0, rep('[a]: b\n')),
        ('refdef-unclosed', 0, cap('[' + 'a' * 4000)),
        ('refdef-many-labels', 0, cap(''.join('[l%d]: /u%d\n' % (k, k) for k in range(400)))),
        ('ref-uses', 0, cap('[a]: /u\n\n' + '[a] ' * 1000)),
        ('link-title-unclosed', 0, cap('[a]: b "' + 'c\n' * 1300)),
        ('paren-nest-dest', 0, cap('[a](' + '(' * 1500 + ')' * 1500 + ')')),
        ('paren-open-dest', 0, cap('[a](' + '(' * 4000)),
        ('ordered-items', 0, rep('1. a\n')),
        ('bullet-items', 0, rep('- a\n')),
        ('bullet-empty-items', 0, rep('-\n')),
        ('lazy-quote', 0, cap('> a\n' + 'b\n' * 2000)),
        ('math-dollars', 0, rep('$')),
        ('math-pairs', 0, rep('$a$')),
        ('wiki-open', 0, rep('[[a|')),
        ('xwiki-macro', 0, rep('{{a}}\n')),
        ('curly', 0, rep('{')),
        ('verb-all-delims', 0, '`` ' + '|!"\'=+#$%&()*,-./:;<>?@[\\]^_`{}~0123456789' + ' ``'),
    ]
    for name, d, text in fam:
        yield name, d, text
    # token runs with a failing tail: the classic trigger of catastrophic regex backtracking in line patterns
    k = 0
    for tok in ['*', '-', '_', '=', '#', '`', '~', '|', ':', '<', '>', '[', ']', '(', ')', '!', '&', ';', '\\', '1.', ':-', '|-', '> ', '- ', '<a ', '="']:
        for sep in ('', ' ', '  ', '\t'):
            for n in (30, 300, 1500):
                for tail in ('', 'x', ' x\n\ny'):
                    k += 1
                    yield 'token-run-%d' % k, 0, (((tok + sep) * n)[:limit - 8] + tail + '\n')
    # staircase families: every line is nested one level deeper and starts with two markers, so that each level
    # holds a list/quote followed by a different container (work must not double per level)
    for depth in (8, 14, 20, 26, 40, 60):
        for a, b in (('*', '-'), ('-', '*'), ('+', '1.'), ('1.', '-'), ('>', '-'), ('-', '>'), ('1)', '1.'), ('*', '*')):
            lines = ['%s a' % b]
            ind = 0
            for k in range(1, depth):
                lines.append(' ' * ind + '%s %s a' % (a, b))
                ind += len(a) + 1
            yield 'staircase-%s-%s-%d' % (a, b, depth), depth, '\n'.join(lines)[:limit] + '\n'
    # nesting families at depth exactly 100 and 101 (and a few small ones)
    for depth in (1, 2, 10, 50, 99, 100, 101):
        yield 'nest-quote-%d' % depth, depth, '>' * depth + ' a\n'
        yield 'nest-quote-sp-%d' % depth, depth, '> ' * depth + 'a\n'
        if depth <= 100:
            yield 'nest-list-%d' % depth, depth, ''.join(' ' * (2 * k) + '- a\n' for k in range(depth))[:limit * 4]
            yield 'nest-list-inline-%d' % depth, depth, '- ' * depth + 'a\n'
        yield 'nest-emph-%d' % depth, depth, '*' * depth + 'a' + '*' * depth + '\n'
        yield 'nest-emph-alt-%d' % depth, depth, ''.join('*_'[k % 2] for k in range(depth)) + 'a' + ''.join('*_'[k % 2] for k in reversed(range(depth))) + '\n'
        yield 'nest-link-img-%d' % depth, depth, '![' * depth + 'a' + '](u)' * depth + '\n'
        yield 'nest-strike-%d' % depth, depth, '~~' * depth + 'a' + '~~' * depth + '\n'
        yield 'nest-mixed-%d' % depth, depth, ''.join(('> ', '- ')[k % 2] for k in range(depth)) + 'a\n'


def nested_soup(rng, maxdepth=40):
    """Random deeply nested containers: line k is indented to (roughly) the content offset of line k-1 and starts with one to
    three container markers of random kinds."""
    markers = ['-', '*', '+', '1.', '2)', '>', '10.', '-', '*']
    depth = rng.randint(3, maxdepth)
    lines = []
    ind = 0
    for k in range(depth):
        ms = [rng.choice(markers) for _ in range(rng.choice((1, 1, 2, 2, 3)))]
        jitter = rng.choice((0, 0, 0, 1, -1, 2))
        lines.append(' ' * max(0, ind + jitter) + ' '.join(ms) + ' ' + rng.choice(('a', 'a b', '', '`c`', '# h', '```')))
        ind += len(ms[0]) + 1 if rng.random() < 0.8 else 0
        if rng.random() < 0.1:
            lines.append('')
        if rng.random() < 0.05:
            ind = max(0, ind - rng.randint(1, 6))
    return '\n'.join(lines)[:4096] + '\n'


def depth_bound(text):
    """Conservative over-approximation of the nesting depth a text can reach:
    container markers per line + inline delimiter count.  Used only to ADMIT a
    RecursionError (C01), so over-approximating is the sound direction."""
    best = 0
    for line in text.split('\n'):
        d = 0
        i = 0
        n = len(line)
        # count container markers at the start of the line
        while i < n:
            c = line[i]
            if c in ' \t':
                i += 1
            elif c == '>':
                d += 1
                i += 1
            elif c in '-+*':
                d += 1
                i += 1
            elif c.isdigit():
                j = i
                while j < n and line[j].isdigit():
                    j += 1
                if j < n and line[j] in '.)':
                    d += 1
                    i = j + 1
                else:
                    break
            elif c in '.)':
                d += 1
                i += 1
            else:
                break
        best = max(best, d)
    inline = max((text.count(c) for c in '*_[~('), default=0)
    return best + inline


# payload-seeded documents (C08 / C17 / C01) ----------------------------------------

PAYLOAD_ATOMS = ['"', "'", '<', '>', '&', '\\', '`', ' ', '(', ')', '[', ']', '{', '}', '=', '/', ';', '#', '%', '\t',
                 '&#1114112;', '&#9999999;', '&#x110000;', '&#xFFFFFF;', '&#0;', '&#xD800;', '&#128;', '&#1114111;', '&NoSuchEntity;', '&#;',
                 'onerror=', 'javascript:', '<script>', '</a>', '-->', '&quot;', '&#34;', '&lt;', 'x', 'é', '"><b>', "' x='", '\\"', '%22', '{inner}', '{0}']
CLASSIC = ['x"onerror="alert(1)', '"><script>alert(1)</script>', "' onmouseover='x", 'javascript:alert("1")', 'a&b<c>d"e\'f',
           '</code></pre><b>', 'http://a@b/"x', 'x" y="z', '{inner}', '&#34;&#60;', '\\"\\<', 'a"b', 'a<b', 'a>b', '<', '>', '"',
           # text decoded with errors='surrogateescape' carries lone surrogates: the URL quoting cannot encode them (outside C01's domain;
           # whatever comes out must still be well-formed)
           # authorities that URL-splitting helpers refuse (unbalanced / non-IP brackets, odd ports)
           'http://[host]:8080/', '//[cdn]/l.png', 'http://[', 'http://[::1', 'http://[::1]:x/', 'http://a:99999999/', 'http://[v1.x]/', 'HTTP://[::1]:80/p?q#f',
           'caf\udce9"onmouseover="alert(1)', '\udc80<b>', '\ud800"']
TEMPLATES = [
    '[t]({p})', '[t](<{p}>)', '[t](u "{p}")', '[*e* **s** `c` t](u "{p}")', '[*e* t][r]\n\n[r]: u \'{p}\'', '![*e* t](u "{p}")', "[t](u '{p}')", '[t](u ({p}))', '[{p}](u)', '![{p}](u)', '![a]({p})', '![a](<{p}>)',
    '![a](u "{p}")', '![*{p}*](u)', '![`{p}`](u)', '![a [{p}](v) b](u)', '[ref]: {p}\n\n[ref]', '[ref]: u "{p}"\n\n![a][ref]',
    '[ref]: <{p}> \'{q}\'\n\n[x][ref] ![{p}][ref]', '<http:{p}>', '<x+y:{p}>', '<{p}@example.com>', '<a{p}@b.c>', '<mailto:{p}>',
    '```{p}\ncode {q}\n```', '~~~ {p}\ncode\n~~~', '~~~{p} {q}\n{p}\n~~~', '    {p}', '`{p}`', '``{p}``', '*{p}*', '**{p}**', '~~{p}~~',
    '# {p}', '{p}\n===', '> {p}', '- {p}', '1. {p}', '| {p} | b |\n|---|:-:|\n| c | {q} |', '|{p}|\n|-|\n|`{q}`|', '{p}  \n{q}', '{p}\\\n{q}',
    '<div>{p}</div>', '<!-- {p} -->', 'a <b {p}> c', 'a <b x="{p}"> c', '&{p};', '&#{p};', '\\{p}', '{p}',
    # renderer-specific span tokens (math, wiki links) inside image descriptions, link texts, headings and table cells
    '![costs $5 or $6 {p}](/u)', '![a $x_1$ b](u "t")', '![x [[a|b]] y](u)', '[a $x$ [[w]] b](u)', '# $a$ [[b|c]] {p}', '| $a$ | [[b]] |\n|---|---|\n| ![$q$](u) | x |',
    '![~~s~~ `c` <b> \\* &amp; <http://x.y>](u)', '![![inner $m$](v)](u)',
    # raw inline HTML inside an image description ends up in the alt attribute
    # line endings inside an image description: hard breaks (both spellings) and soft breaks have no tag form in an attribute
    '![a  \nb {p}](u)', '![a\\\nb](u "{p}")', '![a\nb *c  \nd* {p}](u)', '![x [y\\\nz](v) {p}](u)', '[![a  \nb](s)](u "{p}")', '![a  \nb][r]\n\n[r]: u "{p}"',
    '[t](u "one\ntwo {p}")', '![`a\nb` {p}](u)',
    '![a <b x="{q}"> c](u)', '![<i class="big"> {p}](u "t")', '![a <!-- {q} --> b](u)', '[![x <b {q}> y](s)](u "{p}")', '![a <?{q}?> </b>][r]\n\n[r]: u',
]


SURROGATE_PAYLOADS = 3      # the last entries of CLASSIC


def payload(rng, surrogates=False):
    r = rng.random()
    if r < 0.35:
        return rng.choice(CLASSIC if surrogates else CLASSIC[:-SURROGATE_PAYLOADS])
    return ''.join(rng.choice(PAYLOAD_ATOMS) for _ in range(rng.randint(1, 6)))


def payload_doc(rng, surrogates=False):
    parts = []
    for _ in range(rng.choice((1, 1, 2, 3))):
        t = rng.choice(TEMPLATES)
        parts.append(t.replace('{p}', payload(rng, surrogates)).replace('{q}', payload(rng, surrogates)))
    sep = rng.choice(('\n\n', '\n', ' '))
    return sep.join(parts) + '\n'


