"""Runtime monitoring of miyuchina/mistletoe against the fixed properties C01..C19."""
