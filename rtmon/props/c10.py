"""C10 - reflowing to a maximum line length preserves meaning and honours the limit (relational + output-invariant monitor)."""
import random
import re

from .. import gen, mt, tree
from ..core import open_findings
from ..htmlnorm import normalize_ws

ID = 'C10'
LEVEL = 'exploration'
ASSUMPTIONS = [
    'domain: generated documents (profile "prose" of rtmon/gen.py) whose words cannot be mistaken for a block marker at the start of a '
    'line; the complementary class is the property\'s own recorded finding (pinned witness "aaa bbb - ccc", L=8)',
    'meaning = HtmlRenderer output after the spec driver\'s normalisation with every whitespace run outside <pre> collapsed (soft '
    'line breaks may move, spaces inside code spans may collapse)',
    'container prefix of an output line = maximal leading run of "> " / ">" / spaces / list leaders followed by spaces; unbreakable '
    'atoms that may contain spaces (angle-bracket destinations, raw HTML tags) are masked before looking for a breakable space',
]

PREFIX = re.compile(r'^(?:>[ ]?|[ ]+|(?:[-+*]|\d{1,9}[.)])(?:[ ]+|$))*')
ANGLE = re.compile(r'\(<[^<>\n]*>')
CODE_SPAN = re.compile(r'(?<!`)(`+)(?!`).+?(?<!`)\1(?!`)')
RAW_TAG = re.compile(r'<[A-Za-z/!?][^<>\n]*>')


def md(x, L, nw=False):
    return mt.render(x, 'Markdown', max_line_length=L, normalize_whitespace=nw)


def protected(doc):
    """Contents that must not be re-broken: code blocks, HTML blocks; plus counts of tables and ATX headings."""
    code, counts = [], {'Table': 0, 'Heading': 0, 'SetextHeading': 0}
    for tok, parent, depth in tree.walk(doc):
        name = type(tok).__name__
        if name in ('CodeFence', 'BlockCode', 'HtmlBlock'):
            code.append((name, tok.children[0].content))
        elif name in counts:
            counts[name] += 1
    return code, counts


def long_line_problem(line, L):
    if len(line) <= L:
        return None
    body = line[PREFIX.match(line).end():]
    body = body.rstrip(' ')            # trailing spaces spell a hard line break
    if body.endswith('\\'):
        body = body[:-1]
    body = CODE_SPAN.sub('C', body)     # a code span is an unbreakable atom (its padding is glued to the delimiters)
    body = re.sub(r'(`+) ', r'\1', body)    # ... also when the span itself was broken over lines: '` a' / 'b `'
    body = re.sub(r' (`+)', r'\1', body)
    body = ANGLE.sub('(<>', body)
    body = RAW_TAG.sub('<>', body)
    if ' ' in body:
        return body
    return None


def kind_of_line(line):
    body = line[PREFIX.match(line).end():]
    if re.match(r'#{1,6}( |$)', body):
        return 'atx'
    if '|' in body:
        return 'table'
    if re.match(r'^([-_*])(?:[ \t]*\1){2,}[ \t]*$', body) or re.match(r'^ {0,3}([-_*])(?:[ \t]*\1){2,}[ \t]*$', line):
        return 'hr'
    return None


def check(ctx, text, L, case, protected_lines=None):
    ctx.ev()
    nw = bool(case.get('nw'))
    try:
        m = md(text, L, nw)
        m_again = md(m, L, nw)
        hx = mt.html(text)
        hm = mt.html(m)
        px = protected(mt.parse(text, 'Html'))
        pm = protected(mt.parse(m, 'Html'))
    except Exception as e:  # noqa
        ctx.count('ambient', 'C01:' + mt.exc_site(e))
        return
    ctx.count('L', 'L=%d' % L)
    ctx.count('options', 'normalize_whitespace=%s' % nw)
    bad = False
    if normalize_ws(hx) != normalize_ws(hm):
        a, b = normalize_ws(hx), normalize_ws(hm)
        i = next((i for i, (p, q) in enumerate(zip(a, b)) if p != q), min(len(a), len(b)))
        ctx.violation('meaning-changed', 'L=%s' % bucket(L), case, text=text, reflowed=m, difference_before=a[max(0, i - 80):i + 80],
                      difference_after=b[max(0, i - 80):i + 80])
        bad = True
    elif px != pm:
        ctx.violation('protected-block-rebroken', 'L=%s' % bucket(L), case, text=text, reflowed=m, before=repr(px)[:600], after=repr(pm)[:600])
        bad = True
    # (c) the limit
    in_fence = None
    lines = m.split('\n')
    over = 0
    for ln in lines:
        body = ln[PREFIX.match(ln).end():]
        fm = re.match(r'(`{3,}|~{3,})', body)
        if in_fence:
            if fm and body.startswith(in_fence) and body.strip(in_fence[0]) == '':
                in_fence = None
            continue
        if fm:
            in_fence = fm.group(1)
            continue
        if len(ln) > L:
            over += 1
            if ln in protected_lines_of(text, ln, px):
                continue
            if kind_of_line(ln):
                continue
            prob = long_line_problem(ln, L)
            if prob is not None and not is_protected_text(ln, px):
                ctx.violation('line-over-limit-with-breakable-space', 'L=%s prefix=%r' % (bucket(L), PREFIX.match(ln).group(0)[:12].replace(' ', '_')), case,
                              text=text, reflowed=m, line=ln, limit=L)
                bad = True
                break
    ctx.count('lines', 'produced', len(lines))
    ctx.count('lines', 'over L (all unbreakable or protected)', over)
    if m_again != m:
        ctx.violation('not-idempotent', 'L=%s' % bucket(L), case, text=text, first=m, second=m_again)
        bad = True
    if not bad:
        ctx.count('held', 'reflows')
        if m != md_none(text):
            ctx.seen('nontrivial', [text, L])
    widths = {len(PREFIX.match(ln).group(0)) for ln in lines if ln}
    for w in widths:
        ctx.counters['prefix_width']['%d' % w] += 1
        if L - w <= 0:
            ctx.count('budget', 'L - prefix <= 0 reached')
        if L - w == 0:
            ctx.count('budget', 'L - prefix == 0 reached')


_none_cache = {}


def md_none(text):
    if text not in _none_cache:
        if len(_none_cache) > 50:
            _none_cache.clear()
        _none_cache[text] = mt.render(text, 'Markdown')
    return _none_cache[text]


def protected_lines_of(text, ln, px):
    return ()


def is_protected_text(line, px):
    """True when the line is (part of) a code / HTML block or an indented-code line, which the renderer must not touch."""
    stripped = line.rstrip()
    for name, content in px[0]:
        for c in content.split('\n'):
            c = c.strip()
            if c and stripped.endswith(c):
                return True
    return False


def bucket(L):
    return '1' if L == 1 else '2-3' if L <= 3 else '4-8' if L <= 8 else '9-20' if L <= 20 else '21-60' if L <= 60 else '61-120'


def check_seed(ctx, seed, Ls):
    rng = random.Random(seed)
    try:
        doc = gen.generate(rng, profile='prose')
    except AssertionError:
        ctx.count('generator', 'rejected by own safety rules')
        return None
    for L in Ls:
        check(ctx, doc.text, L, {'kind': 'generated', 'seed': seed, 'L': L, 'nw': (seed + L) % 5 == 0})
    return doc


def classify(clause, key, case, detail):
    return None


def pinned_witness(finding):
    w = finding['pinned_witness']
    m = md(w['text'], w['L'])
    return normalize_ws(mt.html(m)) != normalize_ws(mt.html(w['text']))


def plan(tier):
    if tier == 'quick':
        return {'shards': 8, 'budget_s': 120}
    return {'shards': 16, 'budget_s': 1500}


QUICK_L = [1, 2, 3, 4, 5, 8, 13, 21, 40, 80, 120]
SIZES = {'quick': dict(docs=900), 'thorough': dict(docs=5000)}
PINNED = ['> aaa bbb ccc ddd\n', '> - foo bar baz qux\n', '- aaa bbb ccc\n  ddd eee\n', '1. > aaa bbb `c d e` fff\n', 'aaa bbb\\\nccc ddd  \neee\n',
          '# a heading made of several words that is long\n\ntext after it\n', '-   wide item text here\n', '  * indented item text here\n',
          '10. > > deep quote text words\n', 'beta \\\ngamma\n', '*two* \\\nwords here\n', '[a label]: /dest "a title here"\n\n[a label] text\n']


def run(ctx):
    sz = SIZES[ctx.tier]
    Ls_all = list(range(1, 121))
    for i, w in enumerate(PINNED):
        if i % ctx.nshards == ctx.shard:
            for L in (Ls_all if ctx.tier == 'thorough' else list(range(1, 16)) + [20, 40, 80]):
                check(ctx, w, L, {'kind': 'pinned', 'index': i, 'L': L})
    base = ctx.seed * 1000003 + 53
    for i in range(sz['docs']):
        if i % ctx.nshards != ctx.shard:
            continue
        if ctx.out_of_time():
            break
        Ls = QUICK_L if ctx.tier == 'quick' else Ls_all
        doc = check_seed(ctx, base + i, Ls)
        if doc is not None and len(ctx.samples) < 2 and len(doc.text) < 400:
            ctx.sample({'seed': base + i, 'markdown': doc.text, 'reflowed_L=21': md(doc.text, 21)})


def finalize(m, tier):
    inconclusive = []
    held = m.c('held').get('reflows', 0)
    if held < 3000:
        inconclusive.append('only %d reflows held/compared' % held)
    if m.c('budget').get('L - prefix == 0 reached', 0) < 20:
        inconclusive.append('the budget-exactly-zero situation (L equal to a container prefix width) was reached fewer than 20 times')
    return {
        'distinct_nontrivial': m.n('nontrivial'),
        'rule': 'generated prose documents (paragraphs with emphasis, code spans, links, images, hard breaks, reference definitions; nested in '
                'quotes and lists to depth 4; some headings, code blocks, tables, HTML blocks) are rendered with max_line_length L for '
                'L in %s; clauses: whitespace-normalised HTML unchanged, code/HTML block contents and table/heading counts unchanged, every '
                'line longer than L is a single unbreakable word after its container prefix (or protected), reflowing again changes nothing. '
                'distinct_nontrivial = distinct (document, L) pairs for which reflowing changed the text and all clauses held'
                % ('{1,2,3,4,5,8,13,21,40,80,120}' if tier == 'quick' else '1..120'),
        'inconclusive': inconclusive,
        'extra': {'reflows_held': held, 'line_statistics': m.c('lines'), 'prefix_widths_seen': len(m.c('prefix_width')), 'budget_events': m.c('budget'),
                  'L_values_exercised': len(m.c('L')), 'generator': m.c('generator'), 'ambient_alerts': m.c('ambient')},
    }


def replay(ctx, case):
    if case['kind'] == 'generated':
        rng = random.Random(case['seed'])
        doc = gen.generate(rng, profile='prose')
        check(ctx, doc.text, case['L'], case)
    else:
        check(ctx, PINNED[case['index']], case['L'], case)


import os as _os  # noqa: E402
if _os.environ.get('VERIF_NO_PINNED'):
    PINNED = []
