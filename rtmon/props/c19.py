"""C19 - the table of contents lists exactly the qualifying headings, in order, nested by level (reference-model monitor)."""
import random

from .. import gen, mt

ID = 'C19'
LEVEL = 'exploration'
ASSUMPTIONS = [
    'domain = documents whose QUALIFYING headings (after depth, omit_title and the filters) form an outline: the first one is at the '
    'base level (1, or 2 with omit_title) and no heading is more than one level deeper than its predecessor; other documents are '
    'generated too but only counted (exploratory), as "nested according to level" is not defined for them',
    'titles consist of plain words, optionally with emphasis / strong / code spans whose content is plain words',
    'the TOC is read through the documented attribute TocRenderer.toc (a List token) inside the renderer\'s context and once more after the context has closed',
]

FILTERS = {
    'none': [],
    'word': [lambda c: 'beta' in c],
    'length': [lambda c: len(c) > 16],
    'two': [lambda c: c.startswith('alpha'), lambda c: 'pi' in c.split()],
}


def model(outline, depth, omit_title, filters):
    """[(level, text)] of the qualifying headings in document order."""
    out = []
    for level, text in outline:
        text = text.replace('\n', ' ')          # a line break inside a heading counts as a space in the entry's text
        if omit_title and level == 1:
            continue
        if level > depth:
            continue
        if any(f(text) for f in filters):
            continue
        out.append((level, text))
    return out


def in_domain(entries, omit_title):
    if not entries:
        return 'no qualifying heading'
    base = 2 if omit_title else 1
    if entries[0][0] != base:
        return 'first qualifying heading not at the base level'
    prev = base
    for level, _ in entries:
        if level > prev + 1:
            return 'a heading deepens by more than one level'
        if level < base:
            return 'heading above the base level'
        prev = level
    return None


def nest(entries):
    """[(text, children)] - an entry of level L is a child of the nearest preceding entry of a smaller level."""
    root = []
    stack = [(0, root)]
    for level, text in entries:
        while stack and stack[-1][0] >= level:
            stack.pop()
        node = (text, [])
        stack[-1][1].append(node)
        stack.append((level, node[1]))
    return root


def plain(tok):
    name = type(tok).__name__
    if name == 'RawText':
        return tok.content
    if name == 'LineBreak':
        return ' '
    if tok.children is None:
        return getattr(tok, 'content', '')
    return ''.join(plain(c) for c in tok.children)


def read_toc(lst):
    """List token -> [(text, children)]; anything unexpected is reported as ('?<class>', [])."""
    out = []
    if type(lst).__name__ != 'List':
        return [('?' + type(lst).__name__, [])]
    for item in lst.children:
        kids = list(item.children or [])
        if not kids or type(kids[0]).__name__ != 'Paragraph':
            out.append(('?item without leading paragraph', []))
            continue
        children = []
        for k in kids[1:]:
            if type(k).__name__ == 'List':
                children.extend(read_toc(k))
            else:
                children.append(('?' + type(k).__name__, []))
        out.append((plain(kids[0]), children))
    return out


def make_doc(rng):
    """A document with 1-9 headings interleaved with other blocks, some inside quotes / list items."""
    opt = gen.Opt(outline=True, refs=False, max_blocks=12, leaf_kinds=['para', 'para', 'hr', 'fence'], html=False, tables=False)
    g = gen.Gen(rng, opt)
    blocks = g.blocks(0)
    base = rng.choice((1, 1, 2))
    n = rng.randint(1, 9)
    levels = [base]
    for _ in range(n - 1):
        r = rng.random()
        prev = levels[-1]
        if r < 0.35 and prev < 6:
            levels.append(prev + 1)
        elif r < 0.65:
            levels.append(prev)
        elif r < 0.93:
            levels.append(rng.randint(min(base, prev), prev))
        else:
            levels.append(rng.randint(1, 6))          # occasionally leaves the domain (exploratory stratum)
    if rng.random() < 0.25:
        levels.insert(0, 1)                               # a document title in front
    # positions: top level mostly, sometimes inside containers; document order = order of insertion points
    places = []
    for L, path, in_quote in lists(blocks):
        for pos in range(len(L) + 1):
            places.append((L, pos, path, in_quote))
    chosen = sorted(rng.sample(range(len(places)), min(len(places), len(levels))))
    chosen = [places[i] for i in chosen]
    while len(chosen) < len(levels):
        chosen.append((blocks, len(blocks), 'doc', False))
    nodes = []
    for level, (L, pos, path, in_quote) in zip(levels, chosen):
        words = [gen.word(rng) for _ in range(rng.randint(1, 4))]
        inl = [('text', w) for w in words]
        r = rng.random()
        if r < 0.15:
            inl.insert(rng.randint(1, len(inl)), ('em', '*', [('text', gen.word(rng))], ''))
        elif r < 0.25:
            inl.insert(rng.randint(1, len(inl)), ('code', gen.word(rng), 1, False))
        elif r < 0.32:
            inl.insert(rng.randint(1, len(inl)), ('strong', '_', [('text', gen.word(rng))], ''))
        if level <= 2 and not in_quote and rng.random() < 0.3:
            if len(inl) > 1 and rng.random() < 0.4:
                # 4.3: a setext heading may span lines; the entry carries the words of all of them
                inl.insert(rng.randint(1, len(inl) - 1), ('soft',))
                if inl[-1][0] == 'soft' or any(a[0] == 'soft' and b[0] != 'text' for a, b in zip(inl, inl[1:])):
                    inl = [x for x in inl if x[0] != 'soft']        # (R1: the line after a break starts with a plain word)
            nd = gen.Node('setext', level=level, inl=inl, under=('=' if level == 1 else '-') * rng.choice((3, 5, 9)))
        else:
            nd = gen.Node('atx', level=level, inl=inl, closing=rng.choice(('', '', '#', '##')))
        nd.path = path
        nodes.append((nd, L, pos))
    # insert from the back so that earlier positions stay valid
    for nd, L, pos in sorted(nodes, key=lambda t: -t[2]):
        L.insert(min(pos, len(L)), nd)
    try:
        doc = gen.emit(rng, opt, g, blocks, 'outline')
    except AssertionError:
        return None
    return doc


def lists(blocks, path='doc', in_quote=False):
    yield blocks, path, in_quote
    for nd in blocks:
        if nd.kind == 'quote':
            yield from lists(nd.blocks, path + '>quote', True)
        elif nd.kind == 'list' and not nd.tight:
            for it in nd.items:
                if it.blocks and not it.blank_start:
                    yield from lists(it.blocks, path + '>item', in_quote)


def check(ctx, doc, depth, omit_title, fname, case):
    entries = model(doc.outline, depth, omit_title, FILTERS[fname])
    why = in_domain(entries, omit_title)
    cls = mt.renderer_class('Toc')
    ctx.ev()
    try:
        try:
            with cls(depth=depth, omit_title=omit_title, filter_conds=FILTERS[fname]) as r:
                r.render(mt.Document(doc.text))
                toc = r.toc if not why or why != 'no qualifying heading' else None
            # "after rendering a document": the attribute is read again once the context is closed
            toc_after = r.toc if not why else None
        finally:
            mt.reset()
    except Exception as e:  # noqa
        if why:
            ctx.count('exploratory', 'outside domain (%s): raises %s' % (why, type(e).__name__))
            return
        ctx.violation('raises', mt.exc_site(e), case, text=doc.text, traceback=mt.tb_text(e))
        return
    if why:
        ctx.count('exploratory', 'outside domain: ' + why)
        return
    want = nest(entries)
    got = read_toc(toc)
    ctx.count('options', 'depth=%d omit_title=%s filter=%s' % (depth, omit_title, fname))
    ctx.count('checked', 'entries', len(entries))
    ctx.counters['outline_shape']['len=%d maxlevel=%d' % (len(entries), max(l for l, _ in entries))] += 1
    if got != want:
        ctx.violation('toc-differs', shape_key(want, got), case, text=doc.text, expected=repr(want), observed=repr(got),
                      headings=repr(doc.outline))
        return
    if read_toc(toc_after) != want:
        ctx.violation('toc-differs', 'read after the context closed: ' + shape_key(want, read_toc(toc_after)), case, text=doc.text, expected=repr(want),
                      observed=repr(read_toc(toc_after)), headings=repr(doc.outline))
        return
    ctx.count('held', 'tocs')
    if len(entries) > 1:
        ctx.seen('nontrivial', [doc.text, depth, omit_title, fname])


def flat(n):
    out = []
    for t, ch in n:
        out.append(t)
        out.extend(flat(ch))
    return out


def shape_key(want, got):
    fw, fg = flat(want), flat(got)
    if any(str(t).startswith('?') for t in fg):
        return 'unexpected token in TOC: %s' % next(t for t in fg if str(t).startswith('?'))
    if len(fw) != len(fg):
        return 'entry count %s' % ('too few' if len(fg) < len(fw) else 'too many')
    if fw != fg:
        return 'entry text or order differs'
    return 'same entries, different nesting'


def check_seed(ctx, seed, optsets=None):
    rng = random.Random(seed)
    doc = make_doc(rng)
    if doc is None:
        ctx.count('generator', 'rejected by own safety rules')
        return None
    for k in range(optsets or 6):
        depth = rng.randint(1, 6)
        omit = rng.random() < 0.5
        fname = rng.choice(list(FILTERS))
        check(ctx, doc, depth, omit, fname, {'kind': 'generated', 'seed': seed, 'depth': depth, 'omit_title': omit, 'filter': fname})
    return doc


def plan(tier):
    if tier == 'quick':
        return {'shards': 8, 'budget_s': 90}
    return {'shards': 16, 'budget_s': 900}


SIZES = {'quick': dict(docs=4000, optsets=6), 'thorough': dict(docs=50000, optsets=24)}


def run(ctx):
    sz = SIZES[ctx.tier]
    base = ctx.seed * 1000003 + 29
    for i in range(sz['docs']):
        if i % ctx.nshards != ctx.shard:
            continue
        if ctx.out_of_time():
            break
        doc = check_seed(ctx, base + i, sz['optsets'])
        if doc is not None and len(ctx.samples) < 2 and len(doc.text) < 500:
            ctx.sample({'seed': base + i, 'markdown': doc.text, 'headings(level,text)': doc.outline})


def finalize(m, tier):
    inconclusive = []
    held = m.c('held').get('tocs', 0)
    if held < 2000:
        inconclusive.append('only %d tables of contents compared' % held)
    if len(m.c('options')) < 40:
        inconclusive.append('only %d option combinations exercised' % len(m.c('options')))
    return {
        'distinct_nontrivial': m.n('nontrivial'),
        'rule': 'generated documents with 1-10 headings (ATX and setext, at top level and inside quotes / loose list items, plain-word titles '
                'with occasional emphasis/strong/code) interleaved with other blocks, each rendered with TocRenderer under random '
                '(depth 1-6, omit_title, filter set) options; the toc attribute is compared with the nested outline computed by the model. '
                'distinct_nontrivial = distinct (document, options) pairs in the domain with at least two entries',
        'inconclusive': inconclusive,
        'extra': {'tocs_compared': held, 'entries_checked': m.c('checked').get('entries', 0), 'option_combinations': len(m.c('options')),
                  'outline_shapes': len(m.c('outline_shape')), 'exploratory_outside_domain': m.c('exploratory'), 'generator': m.c('generator')},
    }


def replay(ctx, case):
    rng = random.Random(case['seed'])
    doc = make_doc(rng)
    if doc is not None:
        check(ctx, doc, case['depth'], case['omit_title'], case['filter'], case)
