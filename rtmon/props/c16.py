"""C16 - inline tokenization tiles the source; custom tokens obey the precedence rules (reference-model monitor)."""
import itertools
import re

from mistletoe import Document, block_token, span_token
from mistletoe.base_renderer import BaseRenderer
from mistletoe.core_tokens import MatchObj

from .. import mt
from ..core import open_findings

ID = 'C16'
LEVEL = 'exploration'
ASSUMPTIONS = [
    'custom span tokens are registered the documented way (passed to BaseRenderer.__init__ by a renderer subclass); their find() '
    'returns prescribed matches, their constructors record the offsets they were built from',
    'outcome model (rtmon.props.c16.expected_set) is the statement read literally; where it is silent a SET of outcomes is accepted: '
    'identical spans each inside the other\'s parse group (either nesting), equal start + equal precedence (either survivor), '
    'a match wholly inside the other\'s closing delimiter (the enclosing match, or the precedence winner)',
    'the surrounding text consists of letters only, so no built-in token competes',
]

TEXT = 'abcdefghijklmnopqrstuvwx'          # neutral letters; positions 0..N
N = 12
X_SPAN = (3, 9)


class Rec(span_token.SpanToken):
    """Base of the recording custom tokens: find() returns what the harness prescribes."""
    prescribed = ()

    def __init__(self, match):
        span_token.SpanToken.__init__(self, match)      # the documented default: leaf tokens get .content = their parse group
        self.m = (match.start(), match.end(), match.start(self.parse_group), match.end(self.parse_group))

    @classmethod
    def find(cls, string):
        return list(cls.prescribed)


def make_type(name, prec, inner, pg):
    return type(name, (Rec,), {'precedence': prec, 'parse_inner': inner, 'parse_group': pg, 'prescribed': ()})


def make_renderer(types):
    ns = {}
    for t in types:
        ns[BaseRenderer._cls_to_func(t.__name__)] = lambda self, token: ''

    def __init__(self):
        BaseRenderer.__init__(self, *types)
    ns['__init__'] = __init__
    return type('CustomRenderer', (BaseRenderer,), ns)


def mk_match(s, e, do, dc, text):
    return MatchObj(s, e, (s + do, e - dc, text[s + do:e - dc]))


def observe(types, text):
    """Parse ``text`` as one paragraph inside the custom renderer's context; returns the paragraph's children."""
    R = make_renderer(types)
    try:
        with R():
            doc = Document(text + '\n')
            inside_types = list(span_token._token_types)
        after_block = list(block_token._token_types)
        after_span = list(span_token._token_types)
        doc_after = Document(text + '\n')
    finally:
        mt.reset()
    return doc, inside_types, after_block, after_span, doc_after


def shape(tokens):
    """Custom tokens only, as nested tuples (name, start, end, children)."""
    out = []
    for t in tokens:
        if isinstance(t, Rec):
            kids = shape(t.children) if t.children is not None else ()
            out.append((type(t).__name__, t.m[0], t.m[1], tuple(kids)))
    return tuple(out)


def tiling_problem(tokens, text, lo, hi, parent=None):
    """Source order, disjointness, children inside the parent's parse group, exact recovery of the source."""
    pos = lo
    for t in tokens:
        name = type(t).__name__
        if name == 'RawText':
            seg = text[pos:pos + len(t.content)]
            if seg != t.content:
                return 'raw text %r does not continue the source at %d (%r)' % (t.content, pos, seg)
            pos += len(t.content)
        elif isinstance(t, Rec):
            s, e, ps, pe = t.m
            if s < pos:
                return 'token %s at %d overlaps or precedes position %d' % (name, s, pos)
            if s > pos:
                return 'gap %r before %s not covered by raw text' % (text[pos:s], name)
            if e > hi:
                return 'token %s (%d,%d) leaves its parent\'s parse group (%d,%d)' % (name, s, e, lo, hi)
            if t.children is not None and type(t).parse_inner:
                p = tiling_problem(list(t.children), text, ps, pe, t)
                if p:
                    return p
            elif not type(t).parse_inner:
                content = getattr(t, 'content', None)
                if content != text[ps:pe]:
                    return 'leaf token %s carries content %r, its parse group is %r' % (name, content, text[ps:pe])
            pos = e
        else:
            return 'unexpected token %s' % name
        if pos > hi:
            return 'content runs past %d' % hi
    if pos != hi:
        return 'source not recovered: stopped at %d of %d' % (pos, hi)
    return None


# ---- the outcome model -------------------------------------------------------------------------

def inside(b, a):
    """match b lies inside a's parse group"""
    return b['s'] >= a['ps'] and b['e'] <= a['pe']


def alone(a):
    return ((a['name'], a['s'], a['e'], ()),)


def nest(a, b):
    if a['inner']:
        return ((a['name'], a['s'], a['e'], ((b['name'], b['s'], b['e'], ()),)),)
    return alone(a)


def expected_set(a, b):
    """a, b: dicts name,s,e,ps,pe,prec,inner.  Returns (set of accepted shapes, rule name)."""
    first, second = (a, b) if (a['s'], a['order']) <= (b['s'], b['order']) else (b, a)
    if first['e'] <= second['s']:
        return {((first['name'], first['s'], first['e'], ()), (second['name'], second['s'], second['e'], ()))}, 'disjoint'
    ba, ab = inside(second, first), inside(first, second)
    if ba and ab:
        return {nest(first, second), nest(second, first)}, 'mutual-containment'
    if ba:
        return {nest(first, second)}, 'nests' if first['inner'] else 'swallowed'
    if ab:
        return {nest(second, first)}, 'nests(equal-start)' if second['inner'] else 'swallowed(equal-start)'
    # conflict
    if first['prec'] != second['prec']:
        win = first if first['prec'] > second['prec'] else second
        acc = {alone(win)}
        rule = 'higher-precedence'
    elif first['s'] != second['s']:
        acc = {alone(first)}
        rule = 'tie-earlier'
    else:
        acc = {alone(first), alone(second)}
        rule = 'tie-equal-start'
    if second['s'] >= first['pe'] and second['e'] <= first['e']:
        acc = acc | {alone(first)}
        rule += '+in-closing-delimiter'
    return acc, rule


def allen(a, b):
    s1, e1, s2, e2 = a['s'], a['e'], b['s'], b['e']
    if e1 < s2:
        return 'before'
    if e1 == s2:
        return 'meets'
    if e2 < s1:
        return 'after'
    if e2 == s1:
        return 'met-by'
    if s1 == s2 and e1 == e2:
        return 'equals'
    if s1 == s2:
        return 'starts' if e1 < e2 else 'started-by'
    if e1 == e2:
        return 'finishes' if s1 > s2 else 'finished-by'
    if s1 < s2 and e1 > e2:
        return 'contains'
    if s2 < s1 and e2 > e1:
        return 'during'
    return 'overlaps' if s1 < s2 else 'overlapped-by'


def check_pair(ctx, cfg, wrapped):
    """cfg: (xpg, xdo, xdc, xprec, xinner, ys, ye, ypg, ydo, ydc, yprec, yinner, y_first)"""
    xpg, xdo, xdc, xprec, xinner, ys, ye, ypg, ydo, ydc, yprec, yinner, y_first = cfg
    ctx.ev()
    text = TEXT
    X = make_type('CustX', xprec, xinner, xpg)
    Y = make_type('CustY', yprec, yinner, ypg)
    xs, xe = X_SPAN
    X.prescribed = (mk_match(xs, xe, xdo, xdc, text),)
    Y.prescribed = (mk_match(ys, ye, ydo, ydc, text),)
    types = [Y, X] if y_first else [X, Y]
    # BaseRenderer inserts every extra at position 1, so the LAST registered is searched first
    order = {t.__name__: i for i, t in enumerate(reversed(types))}
    a = dict(name='CustX', s=xs, e=xe, ps=xs + (xdo if xpg else 0), pe=xe - (xdc if xpg else 0), prec=xprec, inner=xinner, order=order['CustX'])
    b = dict(name='CustY', s=ys, e=ye, ps=ys + (ydo if ypg else 0), pe=ye - (ydc if ypg else 0), prec=yprec, inner=yinner, order=order['CustY'])
    case = {'cfg': list(cfg), 'wrapped': wrapped}
    if wrapped:
        W = make_type('CustW', 5, True, 1)
        W.prescribed = (mk_match(0, N + 2, 0, 0, text),)   # parse group covers everything X and Y can touch; delimiters empty
        types = types + [W]
    try:
        doc, inside_types, after_block, after_span, doc_after = observe(types, text)
    except Exception as e:  # noqa
        ctx.violation('raises', mt.exc_site(e), case, traceback=mt.tb_text(e))
        return
    para = doc.children[0]
    kids = list(para.children)
    prob = tiling_problem(kids, text, 0, len(text))
    if prob:
        ctx.violation('tiling', re.sub(r'\d+', 'N', prob)[:80], case, problem=prob, shape=repr(shape(kids)))
        return
    got = shape(kids)
    if wrapped:
        if len(got) != 1 or got[0][0] != 'CustW':
            ctx.violation('wrapper-lost', 'enclosing token not at top level', case, shape=repr(got))
            return
        got = got[0][3]
    acc, rule = expected_set(a, b)
    rel = allen(a, b)
    ctx.count('rule', rule)
    ctx.count('allen', rel)
    if got not in acc:
        ctx.violation('pair-outcome', '%s %s%s' % (rule, rel, ' (inside a parent)' if wrapped else ''), dict(case, model=dict(a=a, b=b)),
                      expected=repr(sorted(acc)), observed=repr(got))
        return
    ctx.count('held', 'wrapped' if wrapped else 'top-level')
    # the custom types are gone once the context has exited
    if any(issubclass(t, Rec) for t in after_span) or after_span != [getattr(span_token, n) for n in span_token.__all__] \
            or after_block != [getattr(block_token, n) for n in block_token.__all__]:
        ctx.violation('context-exit', 'token lists not restored', case, after_span=repr(after_span))
        return
    if shape(doc_after.children[0].children):
        ctx.violation('context-exit', 'custom token recognised after the context exited', case)


def classify(clause, key, case, detail):
    """Known finding: equal starts, the match registered first is evaluated first even when it lies inside the
    other's parse group.  Neutraliser: swap the registration order; the same pair must then give an accepted outcome."""
    if clause != 'pair-outcome' or 'C16-equal-start-registration-order' not in [f['id'] for f in open_findings(ID)]:
        return None
    m = case.get('model')
    if not m or m['a']['s'] != m['b']['s']:
        return None
    cfg = list(case['cfg'])
    cfg[-1] = not cfg[-1]
    probe = _Probe()
    check_pair(probe, tuple(cfg), case['wrapped'])
    return 'C16-equal-start-registration-order' if not probe.bad else None


class _Probe:
    """Minimal stand-in for Ctx used by classifiers / pinned witnesses."""
    def __init__(self):
        self.bad = []
        import collections
        self.counters = collections.defaultdict(collections.Counter)

    def ev(self, n=1):
        pass

    def count(self, *a, **k):
        pass

    def seen(self, *a, **k):
        return True

    def violation(self, clause, key, case, **detail):
        self.bad.append((clause, key))


def pinned_witness(finding):
    probe = _Probe()
    check_pair(probe, tuple(finding['pinned_witness']['cfg']), False)
    return bool(probe.bad)


# ---- random sets: tiling clauses only ------------------------------------------------------------

POOL = [r'a+', r'b(a*)b', r'\d+', r'x(.*?)y', r'(c)', r'[aeiou]{2}', r'q(\w)', r'(\d)\d', r'm(.+)m', r'z', r'(?=a)', r'a(b)?']


def random_case(rng):
    k = rng.randint(1, 4)
    spec = []
    for i in range(k):
        pat = rng.choice(POOL)
        groups = re.compile(pat).groups
        pg = rng.choice((0, 1)) if groups else 0
        if pat == r'a(b)?':
            pg = 0
        spec.append([pat, pg, rng.randint(3, 7), rng.random() < 0.6])
    text = ''.join(rng.choice('aabbcxyqmz012 e') for _ in range(rng.randint(1, 30))).strip() or 'a'
    text = re.sub(r' +', ' ', text)
    return spec, text


def check_random(ctx, rng):
    spec, text = random_case(rng)
    check_random_case(ctx, spec, text)


def check_random_case(ctx, spec, text):
    ctx.ev()
    types = []
    for i, (pat, pg, prec, inner) in enumerate(spec):
        T = type('Rnd%d' % i, (Rec,), {'precedence': prec, 'parse_inner': inner, 'parse_group': pg, 'pattern': re.compile(pat)})
        T.find = classmethod(lambda cls, string: [m for m in cls.pattern.finditer(string) if m.end() > m.start()])
        types.append(T)
    case = {'random': spec, 'text': text}
    try:
        doc, inside_types, after_block, after_span, doc_after = observe(types, text)
    except Exception as e:  # noqa
        ctx.violation('raises', mt.exc_site(e), case, traceback=mt.tb_text(e))
        return
    if not doc.children:
        return
    kids = list(doc.children[0].children)
    prob = tiling_problem(kids, text, 0, len(text))
    if prob:
        ctx.violation('tiling', re.sub(r'\d+', 'N', prob)[:80], case, problem=prob, shape=repr(shape(kids)))
        return
    if shape(kids):
        ctx.seen('nontrivial-random', [spec, text])
    ctx.count('held', 'random-set tiling')
    if shape(doc_after.children[0].children) or any(issubclass(t, Rec) for t in after_span):
        ctx.violation('context-exit', 'custom token recognised after the context exited', case)


def pair_space(tier):
    precs = (3, 5, 7) if tier == 'quick' else (3, 4, 5, 6, 7)
    xs = [(0, 0, 0)] + [(1, do, dc) for do in (0, 1, 2) for dc in (0, 1, 2)]
    ys = [(0, 0, 0)] + [(1, do, dc) for do in (0, 1) for dc in (0, 1)]
    for (xpg, xdo, xdc) in xs:
        for (ypg, ydo, ydc) in ys:
            for y0 in range(0, N):
                for y1 in range(y0 + 1, N + 1):
                    if y1 - y0 < ydo + ydc:
                        continue
                    for xprec in precs:
                        for yprec in precs:
                            for xinner in (True, False):
                                for yinner in (True, False):
                                    for y_first in (False, True):
                                        yield (xpg, xdo, xdc, xprec, xinner, y0, y1, ypg, ydo, ydc, yprec, yinner, y_first)


def plan(tier):
    if tier == 'quick':
        return {'shards': 8, 'budget_s': 120}
    return {'shards': 16, 'budget_s': 1200}


SIZES = {'quick': dict(rand=20000), 'thorough': dict(rand=1000000)}


def run(ctx):
    n = 0
    for i, cfg in enumerate(pair_space(ctx.tier)):
        if i % ctx.nshards != ctx.shard:
            continue
        check_pair(ctx, cfg, False)
        check_pair(ctx, cfg, True)
        n += 1
        if n <= 2:
            ctx.sample({'pair_cfg(xpg,xdo,xdc,xprec,xinner,ys,ye,ypg,ydo,ydc,yprec,yinner,y_registered_first)': list(cfg), 'x_span': list(X_SPAN), 'text': TEXT})
    ctx.count('space', 'pair configurations', n)
    for k in range(SIZES[ctx.tier]['rand'] // ctx.nshards):
        if ctx.out_of_time():
            break
        check_random(ctx, ctx.rng)


def finalize(m, tier):
    total = sum(1 for _ in pair_space(tier))
    inconclusive = []
    done = m.c('space').get('pair configurations', 0)
    if done != total:
        inconclusive.append('pair space: %d of %d configurations executed' % (done, total))
    allen_seen = m.c('allen')
    if len(allen_seen) < 13:
        inconclusive.append('only %d of the 13 Allen relations observed' % len(allen_seen))
    held = m.c('held')
    nontrivial = sum(v for k, v in m.c('rule').items() if k != 'disjoint') + m.n('nontrivial-random')
    return {
        'distinct_nontrivial': nontrivial,
        'rule': 'exhaustive: X fixed at (3,9) in a letters-only text, Y at every (start,end) in 0..12, both with parse_group 0 or 1 and '
                'opening/closing delimiter widths {0,1,2} (X) / {0,1} (Y), precedence in %s, parse_inner both ways, both registration orders '
                '= %d pair configurations, each evaluated at top level and inside an enclosing parse_inner token; plus random sets of up to 4 '
                'regex-defined custom types over random texts (tiling clauses only). Configurations are distinct by construction; '
                'non-trivial = the two matches are not disjoint (each counted once per placement), random cases de-duplicated by hash'
                % ('{3,5,7}' if tier == 'quick' else '{3..7}', total),
        'exhaustive': True,
        'inconclusive': inconclusive,
        'extra': {'pair_space': total, 'allen_relations_observed': allen_seen, 'model_rules_exercised': m.c('rule'), 'held': held},
    }


def replay(ctx, case):
    if 'cfg' in case:
        check_pair(ctx, tuple(case['cfg']), case.get('wrapped', False))
    else:
        check_random_case(ctx, case['random'], case['text'])
