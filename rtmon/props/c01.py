"""C01 - parse-and-render is total and terminates, for every input x renderer x option set."""
import io
import itertools
import json
import os
import signal
import subprocess
import sys
import tempfile
import time

from .. import mt, workloads
from ..core import HOME, StopShard, h64

ID = 'C01'
LEVEL = 'exploration'
ASSUMPTIONS = [
    'termination is decided as bounded progress: the property\'s own budget (10 s per input <= 4 KB), measured in CPU time '
    '(ITIMER_VIRTUAL) and confirmed in a fresh subprocess before it counts',
    'RecursionError is admitted only when a conservative syntactic bound on the nesting depth of the input exceeds 100',
    'inputs contain no NUL / lone surrogates and use \\n line ends (the property\'s alphabet)',
]

CPU_BUDGET_S = 10.0

HTML_OPTS = [dict(html_escape_double_quotes=a, html_escape_single_quotes=b, process_html_tokens=c)
             for a in (False, True) for b in (False, True) for c in (True, False)]
MD_OPTS = [dict(normalize_whitespace=n, max_line_length=l) for n in (False, True) for l in (None, 1, 2, 3, 10, 40, 80)]

BASE_CONFIGS = [
    ('Html', {}), ('Html', {'process_html_tokens': False}), ('Markdown', {}), ('LaTeX', {}), ('Ast', {}),
    ('Toc', {}), ('GithubWiki', {}), ('MathJax', {}), ('Jira', {}), ('XWiki20', {}),
]
SMALL_ENUM_RENDERERS = [('Html', {}), ('Markdown', {}), ('LaTeX', {}), ('Jira', {}), ('XWiki20', {}), ('Ast', {}),
                        ('Markdown', {'max_line_length': 2})]
ALPHA1 = ['a', '1', ' ', '\n', '\t', '*', '_', '`', '~', '[', ']', '(', ')', '<', '>', '!', '#', '-', '+', '=', '|', '\\', '&', '.']
ALPHA2 = ['a', ' ', '\n', ':', '"', ';', '$', '{', '}', '/', '@', "'", '%', '^', '>', '-', '*', '[', ']', '(', ')', '<', '`', 'é']


class CpuBudget(BaseException):
    pass


def _on_vtalrm(signum, frame):
    raise CpuBudget()


def variant_config(rng):
    r = rng.random()
    if r < 0.30:
        return 'Html', rng.choice(HTML_OPTS)
    if r < 0.60:
        return 'Markdown', rng.choice(MD_OPTS)
    if r < 0.70:
        return 'Toc', dict(depth=rng.randint(1, 6), omit_title=rng.random() < 0.5, **rng.choice(HTML_OPTS))
    if r < 0.80:
        return 'GithubWiki', rng.choice(HTML_OPTS)
    if r < 0.90:
        return 'MathJax', rng.choice(HTML_OPTS)
    return rng.choice([('LaTeX', {}), ('Jira', {}), ('XWiki20', {}), ('Ast', {})])


def supply(text, form, tmpdir):
    if form == 'str':
        return text, None
    if form == 'lines':
        return workloads.lines_of(text), None
    if form == 'bare-lines':
        return text.split('\n'), None            # lines without terminators (what str.splitlines / split give a caller)
    if form == 'line-iterator':
        return (l for l in workloads.lines_of(text, keepends=False)), None
    if form == 'stringio':
        return io.StringIO(text, newline=None), None
    path = os.path.join(tmpdir, 'in.md')
    with open(path, 'w', encoding='utf-8', newline='') as f:
        f.write(text)
    fh = open(path, 'r', encoding='utf-8')
    return fh, fh


def admitted(exc, rname, opts, text, depth_known):
    """Returns a label when the failure is one of the property's admitted refusals."""
    name = type(exc).__name__
    if rname == 'LaTeX' and isinstance(exc, RuntimeError) and 'Unable to find delimiter for verb macro' in str(exc):
        return 'latex-no-verb-delimiter'
    if rname == 'Pygments' and name == 'ClassNotFound' and opts.get('fail_on_unsupported_language'):
        return 'pygments-fail-on-unsupported-language'
    if isinstance(exc, RecursionError):
        depth = depth_known if depth_known is not None else workloads.depth_bound(text)
        if depth > 100:
            return 'recursion-limit-depth>100'
    return None


def execute(ctx, text, rname, opts, form, source, depth_known=None, tmpdir=None):
    case = {'text': text, 'renderer': rname, 'opts': opts, 'form': form, 'source': source}
    ctx.ev()
    ctx.count('renderer', rname + (' ' + json.dumps(opts, sort_keys=True) if opts else ''))
    ctx.count('form', form)
    ctx.count('source', source)
    fh = None
    t0 = time.process_time()
    signal.setitimer(signal.ITIMER_VIRTUAL, CPU_BUDGET_S)
    try:
        try:
            src, fh = supply(text, form, tmpdir)
            if not opts and ctx.case_index % 5 == 0:
                import mistletoe
                try:
                    out = mistletoe.markdown(src, mt.renderer_class(rname))     # the convenience entry point
                finally:
                    mt.reset()
            else:
                out = mt.render(src, rname, **opts)
        finally:
            signal.setitimer(signal.ITIMER_VIRTUAL, 0)
            if fh is not None:
                fh.close()
    except CpuBudget:
        ctx.count('outcome', 'cpu-budget-hit')
        confirm_slow(ctx, case)
        return
    except BaseException as e:  # noqa: every exception class is judged
        if isinstance(e, (KeyboardInterrupt, SystemExit)):
            raise
        label = admitted(e, rname, opts, text, depth_known)
        if label:
            ctx.count('outcome', 'admitted:' + label)
            return
        ctx.count('outcome', 'exception:' + type(e).__name__)
        site = mt.exc_site(e)
        ctx.violation('raises', site, case, renderer=rname,
                      exception=repr(e), traceback=mt.tb_text(e))
        return
    dt = time.process_time() - t0
    if dt > 0.25:
        ctx.slow = getattr(ctx, 'slow', [])
        ctx.slow.append((round(dt, 3), rname, source, len(text), text[:80]))
        ctx.slow = sorted(ctx.slow, reverse=True)[:5]
    kb = (len(text) + 1023) // 1024
    key = 'max_cpu_ms_le_%dKB' % max(1, kb)
    if dt * 1000 > ctx.counters['cpu'].get(key, 0):
        ctx.counters['cpu'][key] = int(dt * 1000) + 1
    if not isinstance(out, str):
        ctx.count('outcome', 'non-str')
        ctx.violation('returns-non-str', 'type=%s renderer=%s' % (type(out).__name__, rname), case, observed=repr(out)[:300])
        return
    ctx.count('outcome', 'str')


_CHILD = r'''
import json, sys, time, signal, io
case = json.load(sys.stdin)
from rtmon import mt
class B(BaseException): pass
def h(*a): raise B()
signal.signal(signal.SIGVTALRM, h)
signal.setitimer(signal.ITIMER_VIRTUAL, %f)
t0 = time.process_time()
res = 'finished'
try:
    mt.render(case['text'], case['renderer'], **case['opts'])
except B:
    res = 'over-budget'
except BaseException as e:
    res = 'raised ' + type(e).__name__
print(json.dumps({'result': res, 'cpu_s': time.process_time() - t0}))
'''


def confirm_slow(ctx, case):
    """A CPU-budget hit only counts after a fresh interpreter reproduces it."""
    try:
        p = subprocess.run([sys.executable, '-c', _CHILD % CPU_BUDGET_S], input=json.dumps(case), capture_output=True,
                           text=True, timeout=300, cwd=HOME)
        info = json.loads(p.stdout.strip().splitlines()[-1])
    except Exception as e:  # noqa
        ctx.count('outcome', 'cpu-budget-unconfirmed')
        ctx.note('cpu budget hit could not be confirmed: %r' % e)
        return
    if info['result'] == 'over-budget':
        ctx.violation('does-not-terminate-within-budget', 'renderer=%s family=%s' % (case['renderer'], case['source'].split('<')[0]), case,
                      cpu_s=info['cpu_s'], budget_s=CPU_BUDGET_S)
        ctx.count('outcome', 'termination-violation-confirmed')
        if ctx.counters['outcome']['termination-violation-confirmed'] >= 2:
            raise StopShard('2 confirmed non-termination witnesses (each costs the CPU budget twice)')
    else:
        ctx.count('outcome', 'cpu-budget-not-reproduced')


def run_input(ctx, text, source, depth_known=None, tmpdir=None, pyg_every=20, nvariants=3):
    rng = ctx.rng
    text = workloads.clean_lf(text)
    nontrivial = any(c in text for c in '*_`[]<>#-+>|&\\~')
    if nontrivial:
        ctx.seen('nontrivial', text)
    forms = ['str', 'lines', 'stringio', 'bare-lines', 'line-iterator']
    for rname, opts in BASE_CONFIGS:
        execute(ctx, text, rname, opts, rng.choice(forms), source, depth_known, tmpdir)
    for _ in range(nvariants):
        rname, opts = variant_config(rng)
        execute(ctx, text, rname, opts, rng.choice(forms), source, depth_known, tmpdir)
    if rng.randrange(pyg_every) == 0:
        execute(ctx, text, 'Pygments', {'fail_on_unsupported_language': rng.random() < 0.5}, 'str', source, depth_known, tmpdir)
    if rng.randrange(50) == 0:
        execute(ctx, text, rng.choice(('Html', 'Markdown', 'LaTeX')), {}, 'file', source, depth_known, tmpdir)


STAIR_TOKENS = ['-', '*', '+', '1.', '1)', '2.', '>', '#', '```', '[a]:', '|', '<div>', 'a']


def staircase_sweep(ctx, tmpdir, maxlen, depth):
    """Systematic search for work that multiplies per nesting level: every sequence of up to ``maxlen`` block markers is
    repeated on ``depth`` lines, each line indented ``step`` columns more than the previous one (step 0..4).  A parser that
    re-reads a nested container (as List.read did for a list followed by a differently marked list) doubles its work per
    level and hits the CPU watchdog long before the input reaches 1 KB."""
    import itertools
    idx = 0
    for n in range(1, maxlen + 1):
        for seq in itertools.product(STAIR_TOKENS, repeat=n):
            if seq[-1] == 'a' and n > 1 and seq[-2] == 'a':
                continue
            for step in (0, 1, 2, 3, 4):
                # each level: the markers followed by a word or by nothing (an empty item), the levels separated by a line
                # break or by a blank line; the last level always carries a word
                for tail, sep in ((' a', '\n'), ('', '\n'), (' a', '\n\n'), ('', '\n\n')):
                    idx += 1
                    if idx % ctx.nshards != ctx.shard:
                        continue
                    head = ' '.join(seq)
                    lines = [' ' * (step * k) + head + (tail if k < depth - 1 else ' a') for k in range(depth)]
                    text = sep.join(lines)[:4096] + '\n'
                    execute(ctx, text, 'Html', {}, 'str', 'staircase-sweep', depth_known=depth, tmpdir=tmpdir)
                    if idx % 7 == 0:
                        execute(ctx, text, 'Markdown', {}, 'str', 'staircase-sweep', depth_known=depth, tmpdir=tmpdir)
    ctx.count('staircase-sweep', 'documents', idx // ctx.nshards)


def plan(tier):
    if tier == 'quick':
        return {'shards': 8, 'budget_s': 40}
    return {'shards': 16, 'budget_s': 420}


SIZES = {
    'quick': dict(mixed=2600, payload=1500, nested=1200, gen=700, enum_len=3, enum2_len=2, stress_limit=4096, big=40),
    'thorough': dict(mixed=60000, payload=30000, nested=40000, gen=15000, enum_len=4, enum2_len=3, stress_limit=4096, big=600),
}


# a call that ends in one of the admitted refusals, then an ordinary call through the one-call API (no harness reset in between:
# the refusal is an outcome the property allows, what it leaves behind for the next input is not) - every renderer on both sides
REFUSALS = [
    ('LaTeX', {}, 'x `` ' + ''.join(chr(c) for c in range(33, 127)) + ' `` y\n'),
    ('Pygments', {'fail_on_unsupported_language': True}, '```no-such-language-xyz\ncode\n```\n'),
    ('Html', {}, '>' * 700 + ' a\n'), ('Markdown', {}, '>' * 700 + ' a\n'), ('LaTeX', {}, '- ' * 400 + 'a\n'), ('Jira', {}, '>' * 700 + ' a\n'),
    ('XWiki20', {}, '>' * 700 + ' a\n'), ('MathJax', {}, '>' * 700 + ' a\n'), ('GithubWiki', {}, '>' * 700 + ' a\n'),
]
AFTER_REFUSAL_DOCS = ['a $x$ b\n\n[r]: /u\n\n[r] <b>c</b> [[w|t]]\n\n<div>\nx\n</div>\n', '# h\n\n- a `c`\n- b\n\n| t |\n|---|\n| u |\n\n    code\n']


def after_refusal(ctx, i):
    import mistletoe
    rname, opts, text = REFUSALS[i]
    for r2, _ in BASE_CONFIGS:
        for d in AFTER_REFUSAL_DOCS:
            ctx.ev()
            cls = mt.renderer_class(rname)
            refused = None
            try:
                try:
                    if opts:
                        with cls(**opts) as r:
                            r.render(mt.Document(text))
                    else:
                        mistletoe.markdown(text, cls)
                except BaseException as e:  # noqa
                    if isinstance(e, (KeyboardInterrupt, SystemExit)):
                        raise
                    refused = admitted(e, rname, opts, text, 700 if text.startswith('>') else (400 if text.startswith('- -') else None))
                if not refused:
                    ctx.count('after-refusal', 'first call did not end in an admitted refusal (pair not judged)')
                    continue
                ctx.count('after-refusal', 'refusal ' + refused)
                case = {'kind': 'after-refusal', 'index': i, 'renderer': r2, 'text': d}
                try:
                    out = mistletoe.markdown(d, mt.renderer_class(r2))
                except BaseException as e:  # noqa
                    if isinstance(e, (KeyboardInterrupt, SystemExit)):
                        raise
                    ctx.violation('raises', 'after an admitted refusal (%s): %s' % (refused, mt.exc_site(e)), case, renderer=r2,
                                  first_call='%s %r...' % (rname, text[:30]), exception=repr(e), traceback=mt.tb_text(e))
                    continue
                if not isinstance(out, str):
                    ctx.violation('returns-non-str', 'after an admitted refusal: type=%s renderer=%s' % (type(out).__name__, r2), case)
                    continue
                ctx.count('outcome', 'str after a refusal')
            finally:
                mt.reset()


def run(ctx):
    signal.signal(signal.SIGVTALRM, _on_vtalrm)
    sz = SIZES[ctx.tier]
    for i in range(len(REFUSALS)):
        if i % ctx.nshards == ctx.shard:
            after_refusal(ctx, i)
    rng = ctx.rng
    tmpdir = tempfile.mkdtemp(prefix='c01-', dir=os.path.join(HOME, 'out') if os.path.isdir(os.path.join(HOME, 'out')) else None)
    try:
        # S1 corpus
        for i, ex in enumerate(workloads.spec()):
            if i % ctx.nshards == ctx.shard:
                run_input(ctx, ex['markdown'], 'spec', tmpdir=tmpdir)
        # pinned regression inputs (witnesses of defects repaired by "fix:" commits)
        for i, w in enumerate(PINNED):
            if i % ctx.nshards == ctx.shard:
                run_input(ctx, w, 'pinned', tmpdir=tmpdir, pyg_every=1)
        # S6 stress shapes: every renderer, default options
        for i, (name, depth, text) in enumerate(workloads.stress_shapes(sz['stress_limit'])):
            if i % ctx.nshards != ctx.shard:
                continue
            for rname, opts in BASE_CONFIGS + [('Markdown', {'max_line_length': 20})]:
                execute(ctx, text, rname, opts, 'str', 'stress:' + name, depth_known=depth or None, tmpdir=tmpdir)
            if depth:
                ctx.count('depth', 'depth=%d' % depth)
            ctx.seen('nontrivial', text)
        # white space other than space / tab / line feed in every structural position (the block parser mixes \s, str.strip()
        # and explicit ' \t' sets: a character that one test takes for white space and the next one does not)
        k = 0
        for c in ODD_WS:
            for shape in ODD_WS_SHAPES:
                k += 1
                if k % ctx.nshards == ctx.shard:
                    run_input(ctx, shape.replace('{c}', c), 'odd-white-space', tmpdir=tmpdir, nvariants=1)
        # format-template look-alikes in every payload position (renderers that build their output with str.format / %)
        for t in workloads.TEMPLATES:
            for pl in ('{', '}', '{r}', '{0}', '{r, echo=FALSE}', '%s', '%(x)s', '{{', '%', '{.python}',
                       'http://[host]:8080/', '//[cdn]/l.png', 'http://[', 'http://[::1', 'http://a:99999999/'):     # (and what URL-splitting helpers refuse)
                k += 1
                if k % ctx.nshards == ctx.shard:
                    run_input(ctx, t.replace('{p}', pl).replace('{q}', pl) + '\n', 'format-template', tmpdir=tmpdir, nvariants=1)
        # S5 exhaustive small strings
        idx = 0
        for alpha, maxlen, tag in ((ALPHA1, sz['enum_len'], 'enum1'), (ALPHA2, sz['enum2_len'], 'enum2')):
            for n in range(0, maxlen + 1):
                for tup in itertools.product(alpha, repeat=n):
                    idx += 1
                    if idx % ctx.nshards != ctx.shard:
                        continue
                    text = ''.join(tup)
                    for rname, opts in SMALL_ENUM_RENDERERS:
                        execute(ctx, text, rname, opts, 'str', tag + '<=%d' % maxlen, tmpdir=tmpdir)
                    ctx.count('enum', tag)
            ctx.note('%s: all strings over %d symbols up to length %d enumerated' % (tag, len(alpha), maxlen))
        # S3 generated documents
        try:
            from .. import gen
        except ImportError:
            gen = None
        if gen is not None:
            for k in range(sz['gen'] // ctx.nshards):
                if ctx.out_of_time():
                    break
                doc = gen.generate(rng, profile='full')
                run_input(ctx, doc.text, 'generated', tmpdir=tmpdir)
        # payload-seeded documents (hostile strings inside destinations, titles, info strings ...)
        for k in range(sz['payload'] // ctx.nshards):
            if ctx.out_of_time():
                break
            run_input(ctx, workloads.payload_doc(rng), 'payload', tmpdir=tmpdir)
        # systematic staircases (work that multiplies per nesting level)
        staircase_sweep(ctx, tmpdir, 2 if ctx.tier == 'quick' else 3, 28)
        # deeply nested random containers (staircases of mixed list / quote markers)
        for k in range(sz['nested'] // ctx.nshards):
            if ctx.out_of_time():
                break
            run_input(ctx, workloads.nested_soup(rng), 'nested-soup', tmpdir=tmpdir, nvariants=1)
        # S2 + S4 random
        for k in range(sz['mixed'] // ctx.nshards):
            if ctx.out_of_time():
                break
            kind, text = workloads.mixed(rng)
            run_input(ctx, text, kind, tmpdir=tmpdir)
            if k < 2:
                ctx.sample({'source': kind, 'text': text})
        # larger inputs (up to 4 KB)
        for k in range(sz['big'] // ctx.nshards + 1):
            if ctx.out_of_time():
                break
            parts = []
            while sum(map(len, parts)) < rng.choice((500, 1500, 4000)):
                parts.append(workloads.mixed(rng)[1])
            text = '\n'.join(parts)[:4096]
            run_input(ctx, text, 'big', tmpdir=tmpdir)
    finally:
        for fn in os.listdir(tmpdir):
            os.remove(os.path.join(tmpdir, fn))
        os.rmdir(tmpdir)
    return {'slowest': getattr(ctx, 'slow', [])}


ODD_WS = ['\xa0', '\u3000', '\u2003', '\u1680', '\u202f', '\u2028', '\x85', '\x0b', '\x0c', '\x1c', '\x1f', '\r']
ODD_WS_SHAPES = ['- item\n{c}continued\n', '- item\n {c}x\n', '- a\n\n{c}\n', '- a\n  {c}\n  b\n', '1. a\n   {c}b\n', '> - a\n> {c}b\n', '> {c}\n', '>{c}a\n> b\n', '{c}- a\n',
                 '-{c}a\n', '1.{c}a\n', '#{c}h\n', '# h{c}\n', '{c}# h\n', 'a\n{c}\nb\n', 'a{c}\n===\n', 'a\n==={c}\n', 'a\n{c}===\n', '```{c}\nx\n```\n', '```\n{c}\n```{c}\n',
                 '    code\n{c}\n    more\n', '{c}    code\n', '[a]:{c}/u\n\n[a]\n', '[a]: /u{c}"t"\n\n[a]\n', '[a{c}b]: /u\n\n[a b]\n', '| a |{c}\n|---|\n| b{c}|\n', '|{c}a |\n|{c}---|\n',
                 '<div>\n{c}\nx\n', '{c}<div>\n', '***{c}\n', '* *{c}*\n', 'a{c}{c}\nb\n', 'a \\{c}\nb\n', '`{c}a{c}`\n', '*{c}a*{c}\n', '[t]({c}/u{c})\n', '<http://x{c}y>\n', '{c}\n', '{c}']


# witnesses of repaired defects (see known_findings.json "fixed" entries) and other fixed regression inputs
PINNED = [
    '**a****b*\n', '>\n', '-\n', '> \n>\n', '- \n-\n', '1.\n', '>\n>\n\n-\n', '***a*****b**\n', '[]\n', '![](<>)\n',
    '|a||c|\n|-|-|-|\n|1||3|\n', '```\n', '~~~\n~~~\n', '<\n', '\\\n', '# \n', '#\n', '=\n', '[a]:\n', '[a]: <\n',
]


def finalize(m, tier):
    inconclusive = []
    ar = m.c('after-refusal')
    for need in ('refusal latex-no-verb-delimiter', 'refusal pygments-fail-on-unsupported-language', 'refusal recursion-limit-depth>100'):
        if ar.get(need, 0) < 10:
            inconclusive.append('after-refusal family: %s produced only %d times' % (need, ar.get(need, 0)))
    rend = m.c('renderer')
    names = set(k.split(' ')[0] for k in rend)
    for need in ('Html', 'Markdown', 'LaTeX', 'Ast', 'Toc', 'GithubWiki', 'MathJax', 'Pygments', 'Jira', 'XWiki20'):
        if need not in names:
            inconclusive.append('renderer %s never executed' % need)
    if not any('process_html_tokens": false' in k for k in rend):
        inconclusive.append('Html with process_html_tokens=False never executed')
    return {
        'distinct_nontrivial': m.n('nontrivial'),
        'rule': 'inputs: 652 spec examples, mutated/spliced spec+sample documents, hostile random strings and line soups, '
                'generated documents, ~100 stress shapes up to 4 KB, all strings over two 24-symbol alphabets up to the stated '
                'length, pinned regression inputs; each executed under the 10 renderer classes (+Html without raw HTML) and random '
                'option sets, in str/list/file supply forms. evaluations = executions (input x configuration); distinct_nontrivial '
                '= distinct input texts containing at least one Markdown-significant character',
        'inconclusive': inconclusive,
        'extra': {'outcomes': m.c('outcome'), 'executions_by_renderer_config': len(rend),
                  'staircase_sweep': m.c('staircase-sweep'),
                  'slowest_executions(cpu_s,renderer,source,len,text)': sorted([x for e in m.extra for x in e.get('slowest', [])], reverse=True)[:8]},
    }


def replay(ctx, case):
    signal.signal(signal.SIGVTALRM, _on_vtalrm)
    if case.get('kind') == 'after-refusal':
        after_refusal(ctx, case['index'])
        return
    execute(ctx, case['text'], case['renderer'], case['opts'], case.get('form', 'str'), case.get('source', 'replay'))


import os as _os  # noqa: E402
if _os.environ.get('VERIF_NO_PINNED'):
    PINNED = []
