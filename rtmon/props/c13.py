"""C13 - every block token reports the source line on which it starts (reference-model monitor: the generator knows the line)."""
import random

from .. import gen, mt, workloads
from ..htmlnorm import normalize

ID = 'C13'
LEVEL = 'exploration'
ASSUMPTIONS = [
    'the generator records, for every block it writes, the 1-based line of the block\'s first character (for a list item: the marker line)',
    'blocks are matched to tokens by position in the tree; a document whose token structure differs from the generated tree is skipped '
    'and counted (structural equality is C03\'s business)',
]


def actual_tokens(tokens):
    out = []
    for t in tokens:
        name = type(t).__name__
        if name in ('Paragraph', 'Heading', 'SetextHeading', 'ThematicBreak', 'CodeFence', 'BlockCode', 'HtmlBlock'):
            out.append((name, t.line_number, []))
        elif name == 'Quote':
            out.append((name, t.line_number, actual_tokens(t.children)))
        elif name == 'List':
            out.append((name, t.line_number, [('ListItem', it.line_number, actual_tokens(it.children)) for it in t.children]))
        elif name == 'Table':
            rows = [('TableRow', r.line_number, [('TableCell', c.line_number, []) for c in r.children]) for r in t.children]
            hdr = t.header
            out.append((name, t.line_number, rows, ('TableRow', hdr.line_number, [('TableCell', c.line_number, []) for c in hdr.children])))
        else:
            out.append((name, getattr(t, 'line_number', None), []))
    return out


def same_shape(a, b):
    if len(a) != len(b):
        return False
    for x, y in zip(a, b):
        if x[0] != y[0] or len(x) != len(y) or not same_shape(x[2], y[2]):
            return False
        if len(x) == 4 and not same_shape([x[3]], [y[3]]):
            return False
    return True


def line_diffs(exp, got, path, out):
    for x, y in zip(exp, got):
        p = path + '>' + x[0] if path else x[0]
        out.append((p, x[1], y[1]))
        line_diffs(x[2], y[2], p, out)
        if len(x) == 4:
            line_diffs([x[3]], [y[3]], p + '(header)', out)


def check_doc(ctx, doc, case):
    ctx.ev()
    text = doc.text
    if ctx.case_index % 4 == 0 and text.endswith('\n') and not text.endswith('\n\n'):
        text = text[:-1]
    try:
        d = mt.parse(text if ctx.case_index % 8 else workloads.lines_of(text), 'Html')     # str or list of lines
    except Exception as e:  # noqa
        ctx.count('ambient', 'C01:' + mt.exc_site(e))
        return
    got = actual_tokens(d.children)
    if not same_shape(doc.tokens, got):
        ctx.count('skipped', 'token structure differs from the generated tree')
        return
    pairs = []
    line_diffs(doc.tokens, got, '', pairs)
    bad = [(p, e, g) for p, e, g in pairs if e != g]
    for p, e, g in pairs:
        ctx.counters['tokens_by_path'][p] += 1
        ctx.counters['tokens_by_kind'][p.split('>')[-1]] += 1
    ctx.count('checked', 'block tokens', len(pairs))
    if bad:
        p, e, g = bad[0]
        ctx.violation('line-number', '%s off by %s' % (p, (g - e) if isinstance(g, int) and isinstance(e, int) else 'n/a'), case,
                      text=doc.text, first_wrong='%s: expected line %s, token says %s' % (p, e, g), wrong=len(bad), of=len(pairs))
        return
    ctx.count('held', 'documents')
    if len(pairs) > 2:
        ctx.seen('nontrivial', doc.text)
    for k, v in doc.stats.items():
        if k in ('item-begins-with-blank-line', 'quote-begins-with-blank-line', 'lazy-continuation-line', 'empty-list-item') or k.startswith('blank-omitted'):
            ctx.counters['special_shapes'][k.split(':')[0]] += v


SEP = '\n<!-- sep -->\n\n'


def shifted(toks, k):
    out = []
    for t in toks:
        u = (t[0], t[1] + k if isinstance(t[1], int) else t[1], shifted(t[2], k))
        out.append(u + (shifted([t[3]], k)[0],) if len(t) == 4 else u)
    return out


def check_repeated(ctx, text, case):
    """Relational form (no expected tree needed): the text is parsed alone and then written twice into one document, the copies
    separated by a blank line, an HTML comment and a blank line.  When the doubled document has the structure "tokens of the
    single parse, the comment, the same tokens again" (anything else - a construct left open by the first copy, two lists that
    merge - is skipped and counted), the first copy must report the lines of the single parse and the second copy those lines
    plus the number of lines in between: a token's line is a function of where it stands, not of what it says or of what was
    read before (the same text twice is what a result kept from an earlier read, keyed by content, gets wrong)."""
    ctx.ev()
    if not text.endswith('\n'):
        text += '\n'
    try:
        single = actual_tokens(mt.parse(text, 'Html').children)
        double = actual_tokens(mt.parse(text + SEP + text, 'Html').children)
    except Exception as e:  # noqa
        ctx.count('ambient', 'C01:' + mt.exc_site(e))
        return
    k = text.count('\n') + 3
    want = single + [('HtmlBlock', text.count('\n') + 2, [])] + shifted(single, k)
    if not single or not same_shape(want, double):
        ctx.count('skipped', 'repeated: doubled document has another structure')
        return
    pairs = []
    line_diffs(want, double, '', pairs)
    bad = [(p, e, g) for p, e, g in pairs if e != g]
    ctx.count('checked', 'block tokens of doubled documents', len(pairs))
    for p, e, g in pairs:
        ctx.counters['repeated_tokens_by_kind'][p.split('>')[-1]] += 1
    if bad:
        p, e, g = bad[0]
        ctx.violation('line-number', 'same text twice: %s off by %s' % (p, (g - e) if isinstance(g, int) and isinstance(e, int) else 'n/a'), case,
                      text=text + SEP + text, first_wrong='%s: expected line %s, token says %s' % (p, e, g), wrong=len(bad), of=len(pairs))
        return
    ctx.count('held', 'doubled documents')


# look-ahead readers inside containers (a table / heading / fence / HTML block / list directly under a paragraph line, setext
# underlines, definitions that give lines back), each inside list items and quotes, also two equal items in one list
REPEAT_SOURCES = [
    '- para\n  | a | b |\n  |---|---|\n  | c | d |\n', '1. x\n   a | b\n   --|--\n   c | d\n   e | f\n2. x\n   a | b\n   --|--\n   c | d\n   e | f\n',
    '> para\n> | a |\n> |---|\n> | c |\n', '- > p\n  > a | b\n  > --|--\n  > c | d\n', '> - p\n>   a | b\n>   --|--\n>   c | d\n',
    'p\na | b\n--|--\nc | d\n', '- p\n  # h\n  q\n  ```\n  f\n  ```\n  <div>\n  x\n  </div>\n', '- t\n  ===\n  u\n  ---\n- t\n  ===\n  u\n  ---\n',
    '- [r]: /u\n  "t" x\n  y\n', '> [r]: /u\n> [s]: /v\n> p\n> q\n', '- a\n\n  | h |\n  |---|\n  | r |\n\n\n- b\n', '* a\n  - b\n    a | b\n    --|--\n  - b\n    a | b\n    --|--\n',
    '-\n  p\n  a | b\n  --|--\n', '> \n> p\n> a | b\n> --|--\n', '- p\nlazy\n  a | b\n  --|--\n  c | d\n',
]


def check_seed(ctx, seed):
    rng = random.Random(seed)
    try:
        doc = gen.generate(rng, profile='full')
    except AssertionError:
        ctx.count('generator', 'rejected by own safety rules')
        return
    check_doc(ctx, doc, {'kind': 'generated', 'seed': seed})
    if seed % 3 == 0:
        check_repeated(ctx, doc.text, {'kind': 'generated-repeated', 'seed': seed})
    return doc


PINNED = [
    ('-\n  foo\n', [('List', 1, [('ListItem', 1, [('Paragraph', 2, [])])])]),
    ('\n\n> \n> a\n>\n> - b\n>\n>   c\n', [('Quote', 3, [('Paragraph', 4, []), ('List', 6, [('ListItem', 6, [('Paragraph', 6, []), ('Paragraph', 8, [])])])])]),
    ('1.\n   # h\n\n   p\n2.\n\n3. x\n', [('List', 1, [('ListItem', 1, [('Heading', 2, []), ('Paragraph', 4, [])]), ('ListItem', 5, []), ('ListItem', 7, [('Paragraph', 7, [])])])]),
    ('x\n\n> > a | b\n> > --|--\n> > c | d\n', [('Paragraph', 1, []), ('Quote', 3, [('Quote', 3, [('Table', 3, [('TableRow', 5, [('TableCell', 5, []), ('TableCell', 5, [])])],
                                                            ('TableRow', 3, [('TableCell', 3, []), ('TableCell', 3, [])]))])])]),
    ('[a]: /u\n[b]: /v\n\npara\n\n[c]: /w\n# h\n', [('Paragraph', 4, []), ('Heading', 7, [])]),
]


def plan(tier):
    if tier == 'quick':
        return {'shards': 8, 'budget_s': 90}
    return {'shards': 16, 'budget_s': 900}


SIZES = {'quick': dict(docs=8000), 'thorough': dict(docs=600000)}


def run(ctx):
    sz = SIZES[ctx.tier]

    class D:
        pass
    for i, (text, toks) in enumerate(PINNED):
        if i % ctx.nshards == ctx.shard:
            d = D()
            d.text, d.tokens, d.stats = text, toks, {}
            check_doc(ctx, d, {'kind': 'pinned', 'index': i})
    for i, text in enumerate(REPEAT_SOURCES):
        if i % ctx.nshards == ctx.shard:
            check_repeated(ctx, text, {'kind': 'repeated', 'index': i})
    for i, ex in enumerate(workloads.spec()):
        if i % ctx.nshards == ctx.shard:
            check_repeated(ctx, ex['markdown'], {'kind': 'repeated-spec', 'example': ex['example']})
    base = ctx.seed * 1000003 + 17
    for i in range(sz['docs']):
        if i % ctx.nshards != ctx.shard:
            continue
        if ctx.out_of_time():
            break
        doc = check_seed(ctx, base + i)
        if doc is not None and len(ctx.samples) < 2 and len(doc.text) < 400:
            ctx.sample({'seed': base + i, 'markdown': doc.text, 'expected(class,line,children)': repr(doc.tokens)})


def finalize(m, tier):
    inconclusive = []
    n = m.c('checked').get('block tokens', 0)
    if n < 20000:
        inconclusive.append('only %d block tokens checked' % n)
    special = m.c('special_shapes')
    for need in ('item-begins-with-blank-line', 'quote-begins-with-blank-line', 'lazy-continuation-line', 'empty-list-item'):
        if special.get(need, 0) < 5:
            inconclusive.append('special shape %s seen only %d times' % (need, special.get(need, 0)))
    return {
        'distinct_nontrivial': m.n('nontrivial'),
        'rule': 'generated documents (full profile: every block kind, nesting to depth 4, containers beginning with a blank line, lazy '
                'continuation lines, link definitions before and between blocks, leading blank lines) are parsed under the Html token set; '
                'every block token (Paragraph, Heading, SetextHeading, CodeFence, BlockCode, Quote, List, ListItem, Table, TableRow incl. '
                'header, TableCell, ThematicBreak, HtmlBlock) must report the line on which the generator wrote its first character. '
                'Relational form for every third generated document, the 652 spec examples and a hand-written family of look-ahead '
                'readers inside containers: the text written twice into one document reports, for the second copy, the lines of the '
                'single parse plus the distance. distinct_nontrivial = distinct documents with more than 2 block tokens',
        'inconclusive': inconclusive,
        'extra': {'block_tokens_checked': n, 'by_kind': m.c('tokens_by_kind'), 'distinct_nesting_paths': len(m.c('tokens_by_path')),
                  'special_shapes_seen': special, 'doubled_documents_held': m.c('held').get('doubled documents', 0),
                  'doubled_document_tokens_by_kind': m.c('repeated_tokens_by_kind'), 'skipped': m.c('skipped'), 'generator': m.c('generator')},
    }


def replay(ctx, case):
    if case['kind'] == 'generated':
        check_seed(ctx, case['seed'])
    elif case['kind'] == 'generated-repeated':
        check_repeated(ctx, gen.generate(random.Random(case['seed']), profile='full').text, case)
    elif case['kind'] == 'repeated':
        check_repeated(ctx, REPEAT_SOURCES[case['index']], case)
    elif case['kind'] == 'repeated-spec':
        check_repeated(ctx, next(e for e in workloads.spec() if e['example'] == case['example'])['markdown'], case)
    else:
        class D:
            pass
        d = D()
        d.text, d.tokens = PINNED[case['index']]
        d.stats = {}
        check_doc(ctx, d, case)


import os as _os  # noqa: E402
if _os.environ.get('VERIF_NO_PINNED'):
    PINNED = []
