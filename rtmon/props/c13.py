"""C13 - every block token reports the source line on which it starts (reference-model monitor: the generator knows the line)."""
import random

from .. import gen, mt, workloads
from ..htmlnorm import normalize

ID = 'C13'
LEVEL = 'exploration'
ASSUMPTIONS = [
    'the generator records, for every block it writes, the 1-based line of the block\'s first character (for a list item: the marker line)',
    'blocks are matched to tokens by position in the tree; a document whose token structure differs from the generated tree is skipped '
    'and counted (structural equality is C03\'s business)',
]


def actual_tokens(tokens):
    out = []
    for t in tokens:
        name = type(t).__name__
        if name in ('Paragraph', 'Heading', 'SetextHeading', 'ThematicBreak', 'CodeFence', 'BlockCode', 'HtmlBlock'):
            out.append((name, t.line_number, []))
        elif name == 'Quote':
            out.append((name, t.line_number, actual_tokens(t.children)))
        elif name == 'List':
            out.append((name, t.line_number, [('ListItem', it.line_number, actual_tokens(it.children)) for it in t.children]))
        elif name == 'Table':
            rows = [('TableRow', r.line_number, [('TableCell', c.line_number, []) for c in r.children]) for r in t.children]
            hdr = t.header
            out.append((name, t.line_number, rows, ('TableRow', hdr.line_number, [('TableCell', c.line_number, []) for c in hdr.children])))
        else:
            out.append((name, getattr(t, 'line_number', None), []))
    return out


def same_shape(a, b):
    if len(a) != len(b):
        return False
    for x, y in zip(a, b):
        if x[0] != y[0] or len(x) != len(y) or not same_shape(x[2], y[2]):
            return False
        if len(x) == 4 and not same_shape([x[3]], [y[3]]):
            return False
    return True


def line_diffs(exp, got, path, out):
    for x, y in zip(exp, got):
        p = path + '>' + x[0] if path else x[0]
        out.append((p, x[1], y[1]))
        line_diffs(x[2], y[2], p, out)
        if len(x) == 4:
            line_diffs([x[3]], [y[3]], p + '(header)', out)


def check_doc(ctx, doc, case):
    ctx.ev()
    text = doc.text
    if ctx.case_index % 4 == 0 and text.endswith('\n') and not text.endswith('\n\n'):
        text = text[:-1]
    try:
        d = mt.parse(text if ctx.case_index % 8 else workloads.lines_of(text), 'Html')     # str or list of lines
    except Exception as e:  # noqa
        ctx.count('ambient', 'C01:' + mt.exc_site(e))
        return
    got = actual_tokens(d.children)
    if not same_shape(doc.tokens, got):
        ctx.count('skipped', 'token structure differs from the generated tree')
        return
    pairs = []
    line_diffs(doc.tokens, got, '', pairs)
    bad = [(p, e, g) for p, e, g in pairs if e != g]
    for p, e, g in pairs:
        ctx.counters['tokens_by_path'][p] += 1
        ctx.counters['tokens_by_kind'][p.split('>')[-1]] += 1
    ctx.count('checked', 'block tokens', len(pairs))
    if bad:
        p, e, g = bad[0]
        ctx.violation('line-number', '%s off by %s' % (p, (g - e) if isinstance(g, int) and isinstance(e, int) else 'n/a'), case,
                      text=doc.text, first_wrong='%s: expected line %s, token says %s' % (p, e, g), wrong=len(bad), of=len(pairs))
        return
    ctx.count('held', 'documents')
    if len(pairs) > 2:
        ctx.seen('nontrivial', doc.text)
    for k, v in doc.stats.items():
        if k in ('item-begins-with-blank-line', 'quote-begins-with-blank-line', 'lazy-continuation-line', 'empty-list-item') or k.startswith('blank-omitted'):
            ctx.counters['special_shapes'][k.split(':')[0]] += v


def check_seed(ctx, seed):
    rng = random.Random(seed)
    try:
        doc = gen.generate(rng, profile='full')
    except AssertionError:
        ctx.count('generator', 'rejected by own safety rules')
        return
    check_doc(ctx, doc, {'kind': 'generated', 'seed': seed})
    return doc


PINNED = [
    ('-\n  foo\n', [('List', 1, [('ListItem', 1, [('Paragraph', 2, [])])])]),
    ('\n\n> \n> a\n>\n> - b\n>\n>   c\n', [('Quote', 3, [('Paragraph', 4, []), ('List', 6, [('ListItem', 6, [('Paragraph', 6, []), ('Paragraph', 8, [])])])])]),
    ('1.\n   # h\n\n   p\n2.\n\n3. x\n', [('List', 1, [('ListItem', 1, [('Heading', 2, []), ('Paragraph', 4, [])]), ('ListItem', 5, []), ('ListItem', 7, [('Paragraph', 7, [])])])]),
    ('x\n\n> > a | b\n> > --|--\n> > c | d\n', [('Paragraph', 1, []), ('Quote', 3, [('Quote', 3, [('Table', 3, [('TableRow', 5, [('TableCell', 5, []), ('TableCell', 5, [])])],
                                                            ('TableRow', 3, [('TableCell', 3, []), ('TableCell', 3, [])]))])])]),
    ('[a]: /u\n[b]: /v\n\npara\n\n[c]: /w\n# h\n', [('Paragraph', 4, []), ('Heading', 7, [])]),
]


def plan(tier):
    if tier == 'quick':
        return {'shards': 8, 'budget_s': 90}
    return {'shards': 16, 'budget_s': 900}


SIZES = {'quick': dict(docs=8000), 'thorough': dict(docs=600000)}


def run(ctx):
    sz = SIZES[ctx.tier]

    class D:
        pass
    for i, (text, toks) in enumerate(PINNED):
        if i % ctx.nshards == ctx.shard:
            d = D()
            d.text, d.tokens, d.stats = text, toks, {}
            check_doc(ctx, d, {'kind': 'pinned', 'index': i})
    base = ctx.seed * 1000003 + 17
    for i in range(sz['docs']):
        if i % ctx.nshards != ctx.shard:
            continue
        if ctx.out_of_time():
            break
        doc = check_seed(ctx, base + i)
        if doc is not None and len(ctx.samples) < 2 and len(doc.text) < 400:
            ctx.sample({'seed': base + i, 'markdown': doc.text, 'expected(class,line,children)': repr(doc.tokens)})


def finalize(m, tier):
    inconclusive = []
    n = m.c('checked').get('block tokens', 0)
    if n < 20000:
        inconclusive.append('only %d block tokens checked' % n)
    special = m.c('special_shapes')
    for need in ('item-begins-with-blank-line', 'quote-begins-with-blank-line', 'lazy-continuation-line', 'empty-list-item'):
        if special.get(need, 0) < 5:
            inconclusive.append('special shape %s seen only %d times' % (need, special.get(need, 0)))
    return {
        'distinct_nontrivial': m.n('nontrivial'),
        'rule': 'generated documents (full profile: every block kind, nesting to depth 4, containers beginning with a blank line, lazy '
                'continuation lines, link definitions before and between blocks, leading blank lines) are parsed under the Html token set; '
                'every block token (Paragraph, Heading, SetextHeading, CodeFence, BlockCode, Quote, List, ListItem, Table, TableRow incl. '
                'header, TableCell, ThematicBreak, HtmlBlock) must report the line on which the generator wrote its first character. '
                'distinct_nontrivial = distinct documents with more than 2 block tokens',
        'inconclusive': inconclusive,
        'extra': {'block_tokens_checked': n, 'by_kind': m.c('tokens_by_kind'), 'distinct_nesting_paths': len(m.c('tokens_by_path')),
                  'special_shapes_seen': special, 'skipped': m.c('skipped'), 'generator': m.c('generator')},
    }


def replay(ctx, case):
    if case['kind'] == 'generated':
        check_seed(ctx, case['seed'])
    else:
        class D:
            pass
        d = D()
        d.text, d.tokens = PINNED[case['index']]
        d.stats = {}
        check_doc(ctx, d, case)


import os as _os  # noqa: E402
if _os.environ.get('VERIF_NO_PINNED'):
    PINNED = []
