"""C18 - HTML-based contrib renderers reproduce HtmlRenderer's output on documents that do not use their extension."""
import re
import zlib

from .. import mt, tree, workloads

ID = 'C18'
LEVEL = 'exploration'
ASSUMPTIONS = [
    'side conditions are taken conservatively: GithubWiki skips any text with "[[", "|" and "]]" in that order on one line, MathJax any text containing "$", Pygments '
    'any document whose parsed tree (under the same options) contains a BlockCode/CodeFence token',
    'the MathJax script line is the renderer\'s own mathjax_src attribute and is removed exactly once from the end',
]

OPTS = [dict(html_escape_double_quotes=a, html_escape_single_quotes=b, process_html_tokens=c)
        for c in (True, False) for a in (False, True) for b in (False, True)]
CONTRIB = ('Toc', 'GithubWiki', 'MathJax', 'Pygments')


WIKI_LINK = re.compile(r'\[\[[^\n]*\|[^\n]*\]\]')       # (own, slightly wider copy of the extension's shape)


def eligible(rname, text, opts):
    if rname == 'GithubWiki':
        # the extension is '[[text|target]]' on one line; doubled brackets without a pipe are ordinary CommonMark
        return WIKI_LINK.search(text) is None
    if rname == 'MathJax':
        return '$' not in text
    if rname == 'Pygments':
        doc = mt.parse(text, 'Html', **opts)
        return not any(type(t).__name__ in ('BlockCode', 'CodeFence') for t, _, _ in tree.walk(doc))
    return True


def check(ctx, text, opts, source, renderers=CONTRIB):
    case = {'text': text, 'opts': opts, 'source': source}
    try:
        base = mt.render(text, 'Html', **opts)
    except Exception as e:  # noqa
        ctx.count('ambient', 'C01:' + mt.exc_site(e))
        return
    for rname in renderers:
        try:
            ok = eligible(rname, text, opts)
        except Exception as e:  # noqa
            ctx.count('ambient', 'C01:' + mt.exc_site(e))
            continue
        if not ok:
            ctx.count('skipped_by_side_condition', rname)
            continue
        ctx.ev()
        c = dict(case, renderer=rname)
        try:
            out, again = render_twice(text, rname, opts)
        except Exception as e:  # noqa
            ctx.violation('contrib-raises-where-html-does-not', '%s %s' % (rname, mt.exc_site(e)), c, traceback=mt.tb_text(e))
            continue
        if again != out:
            # the same Document rendered a second time by the same renderer: "on every document" includes one that was rendered before
            k = next((i for i, (x, y) in enumerate(zip(again, out)) if x != y), min(len(out), len(again)))
            ctx.violation('second-render-differs', '%s near %s' % (rname, near(out, k)), c, expected=out, observed=again, first_difference_at=k)
            continue
        ctx.count('rendered-twice', rname)
        if rname == 'MathJax':
            src = mt.renderer_class('MathJax').mathjax_src
            if not out.endswith(src):
                ctx.violation('mathjax-script-line-missing', rname, c, observed=out[-200:])
                continue
            out = out[:-len(src)]
        if out != base:
            k = next((i for i, (x, y) in enumerate(zip(out, base)) if x != y), min(len(out), len(base)))
            ctx.violation('output-differs', '%s near %s' % (rname, near(base, k)), c, expected=base, observed=out, first_difference_at=k)
        else:
            ctx.count('equal', rname)
            if len(base) > 20:
                ctx.seen('nontrivial', [text, opts, rname])


# the TOC renderer's own options decide what is *listed*, never what is rendered
TOC_VARIANTS = [{}, {'depth': 1}, {'depth': 2, 'omit_title': False}, {'filter_conds': [lambda s: 'a' in s or 'e' in s]},
                {'depth': 6, 'omit_title': False, 'filter_conds': [lambda s: True]}, {'filter_conds': [lambda s: len(s) % 2 == 0, lambda s: s[:1].isupper()]}]


def render_twice(text, rname, opts):
    cls = mt.renderer_class(rname)
    if rname == 'Toc':
        opts = dict(opts, **TOC_VARIANTS[zlib.crc32(text.encode('utf-8', 'replace')) % len(TOC_VARIANTS)])
    try:
        with cls(**opts) as r:
            doc = mt.Document(text)
            return r.render(doc), r.render(doc)
    finally:
        mt.reset()


def near(base, k):
    """Mechanism key: the enclosing tag name at the first difference."""
    lt = base.rfind('<', 0, k + 1)
    seg = base[lt:lt + 16] if lt >= 0 else 'start'
    return seg.split('>')[0].split(' ')[0] + '>'


def plan(tier):
    if tier == 'quick':
        return {'shards': 8, 'budget_s': 60}
    return {'shards': 16, 'budget_s': 600}


SIZES = {'quick': dict(mixed=20000, gen=4000), 'thorough': dict(mixed=150000, gen=40000)}
PINNED = ['[a](http://x/y#z%20q)\n<http://x/%25#f>\n[r]\n\n[r]: /u%C3%A9#frag\n', 'Title\nspanning\n===\n\nsub\ntitle\n---\n',
          'a <b>raw</b> c\n\n<div>\nblock\n</div>\n', '# h *e* `c`\n\n## h2\n', '~~s~~ | a |\n|---|\n| b |\n', 'a [b](u "t") ![i](s "t")\n']


DOUBLE_BRACKETS = ['See [[Home]]\n', '[[foo]]\n\n[foo]: /url\n', '[[inner]](/outer)\n', 'x[[1]] and m[[i]][[j]]\n', '# [[t]]\n', '[[a]] | [[b]]\n', '[[a\n|b]]\n',
                   '| [[c]] |\n|---|\n| [[d]] |\n', '![[alt]](/s)\n', '[[ ]] [[]] [[x] ]\n', '- [[item]]\n> [[quote]]\n']


def run(ctx):
    sz = SIZES[ctx.tier]
    rng = ctx.rng
    for i, w in enumerate(PINNED):
        if i % ctx.nshards == ctx.shard:
            for o in OPTS:
                check(ctx, w, o, 'pinned')
    for i, ex in enumerate(workloads.spec()):
        if i % ctx.nshards == ctx.shard:
            for o in (OPTS[0], rng.choice(OPTS[1:]), rng.choice(OPTS[4:])):
                check(ctx, ex['markdown'], o, 'spec')
    for i, (name, text) in enumerate(workloads.sample_files()):
        if i % ctx.nshards == ctx.shard:
            check(ctx, text, OPTS[0], 'sample:' + name)
    # the hooks the contrib renderers override see the *edges* of a construct's content: white space, character references
    # that decode to white space, line breaks and markup at the start / end of headings, links, code blocks and the document
    k = 0
    for edge in ('&nbsp;', '&#32;', '&emsp;', '&#9;', '&#160;', '\xa0', '\u2003', '*e*', '`c`', '<b>', '\\', '[l](/u)', '![i](/s)'):
        for shape in ('# %sx\n', '## x%s\n', '### %sx%s ###\n', 'x%s\n===\n', '%sx\ny%s\n---\n', '> #### %sx\n', '- ## x%s\n\n  text\n',
                      '[%sx%s](/u "%s")\n', '```%s\nx%s\n```\n', '%s\n', 'a\n\n%s\n'):
            k += 1
            if k % ctx.nshards == ctx.shard:
                check(ctx, shape.replace('%s', edge), OPTS[k % len(OPTS)], 'edges')
    # doubled brackets that are not the wiki extension (no pipe): references, links and literal brackets as CommonMark reads them
    for i, w in enumerate(DOUBLE_BRACKETS):
        if i % ctx.nshards == ctx.shard:
            check(ctx, w, OPTS[i % len(OPTS)], 'double-brackets')
    try:
        from .. import gen
    except ImportError:
        gen = None
    if gen is not None:
        for k in range(sz['gen'] // ctx.nshards):
            if ctx.out_of_time():
                break
            check(ctx, gen.generate(rng, profile='full').text, rng.choice(OPTS), 'generated')
    for k in range(sz['mixed'] // ctx.nshards):
        if ctx.out_of_time():
            break
        kind, text = workloads.mixed(rng)
        check(ctx, workloads.clean_lf(text), rng.choice(OPTS), kind)
        if k < 2:
            ctx.sample({'source': kind, 'text': text})


def finalize(m, tier):
    inconclusive = []
    eq = m.c('equal')
    for r in CONTRIB:
        if eq.get(r, 0) < 300:
            inconclusive.append('%s compared only %d times' % (r, eq.get(r, 0)))
    return {
        'distinct_nontrivial': m.n('nontrivial'),
        'rule': 'for each input x HTML option set, the output of each of TocRenderer, GithubWikiRenderer, MathJaxRenderer (script line '
                'removed) and PygmentsRenderer is compared byte for byte with HtmlRenderer\'s, whenever the renderer\'s side condition '
                'holds; distinct_nontrivial = distinct (input, options, renderer) comparisons with more than 20 bytes of output',
        'inconclusive': inconclusive,
        'extra': {'comparisons_equal': eq, 'skipped_by_side_condition': m.c('skipped_by_side_condition'), 'ambient_alerts': m.c('ambient')},
    }


def replay(ctx, case):
    check(ctx, case['text'], case['opts'], case.get('source', 'replay'), renderers=(case['renderer'],) if 'renderer' in case else CONTRIB)


import os as _os  # noqa: E402
if _os.environ.get('VERIF_NO_PINNED'):
    PINNED = []
