"""C11 - results depend only on input and renderer, never on earlier use of the library (history / fault-sequence monitor)."""
import itertools
import json
import os
import subprocess
import sys
import time

import mistletoe
from mistletoe import Document, block_token, span_token

from .. import mt, tree
from ..core import HOME, h64

ID = 'C11'
LEVEL = 'fault_enumeration'
ASSUMPTIONS = [
    '"fresh" outputs come from one new interpreter per (document, renderer, options) triple',
    'renderers are used one at a time as context managers (the documented way); for a context that is opened and closed inside another one '
    'only the last sentence of the statement is checked (token sets are the defaults after its exit) - outputs of nested renderers are not compared',
    'custom faulting tokens are registered with the public add_token functions and removed again by the caller when no renderer context does it',
]

# ---- probe documents: each consumes a piece of parser scratch state ---------------------------
DOCS = {
    'code': 'a `code` b and `` x ` y ``\n',
    'setext': 'Setext\n===\n\npara\n---\n',
    'atx': '# h1\n\n###### h6 ##\n\n#\n\n## h2 #\n',
    'empty-atx': '#\n',
    'fence': '```py\nx\n```\n\n~~~\ny\n~~~\n\n``` \nz\n```\n',
    'html': '<!-- c -->\n\n<x-y>\nfoo\n\nbar\n\n<pre>\nz\n\n</pre>\n\n<?p ?>\nq\n',
    'custom-tag': '<x-note>\nfoo\n\nbar\n',
    'html-interrupt': 'para\n<div>\nx\n</div>\n\npara\n# h\npara\n```\nf\n```\npara\n> q\n',
    'ref': '[r]: /u "t"\n\n[r] and [R][] and [x][r]\n',
    'table': 'para\na | b\n--|--\nc | d\n',
    'entity': '&copy; &amp; &#35; &copy\n\n[e]: /u&copy\n\n[e] [a](/u&copy)\n',
    'entity-def': '[e]: /u&copy "t&copy"\n\n[e]\n',
    'entity-inline': '[a](/u&copy "t&copy") &copy\n',
    'entity-info': '```&copy\nx\n```\n',
    'quote-setext': '> quote\n\nTitle\n===\n\n> Title\n> ===\n',
    'tight-list': '- a\n- b `c`\n\n> q\n\npara\n',
    'latex-packages': '~~s~~ ![i](/s)\n\n| a |\n|---|\n| b |\n',
    'table-probe-code': 'para\n    x | y\n    ---|---\n    1 | 2\n',
    'table-probe-html': '<a title="|">\n---|---\n1 | 2\n',
    'table-line2': 'head\nq | r\n:-:|--:\ns | t\nu | v\n',
    'blank-item-ol': '- a\n-\n\n1. b\n',            # a blank item between items (a buffer that is written to after List.read)
    'blank-item-ul': '- a\n-\n\n- b\n',
    'blank-item-last': '- a\n-\n\npara\n',
    'code-pipe': 'a `x|y` b `p!q|r` c ``|`` d\n',      # code spans that rule out the first choices of a delimiter ladder
    'unicode-punct': '这是**“重要”**。 so-called*“experts”* agree 「*(aside)*」 and a*“b”*c\n',     # flanking decided by non-ASCII punctuation
    'toc-def': '# t\n\n## [l]: /leak\n\n## [r]: </leak2> "x"\n',
    'toc-ref': '# t\n\n## [l] x\n\n## y [r]\n',
    # characters that every text renderer has to escape in its own way (what a renderer remembers about "escaping is on")
    'specials': 'a & b % c $5 # e _f_ { g } h ~ i ^ j \\ k <l> "m" \'n\' | o\n\n- p & q_r\n\n`s & t_u`\n',
    'ext': '$x$ [[a|b]] {{m}}\ntext\n{{/m}}\n\n- item\n  > q `c`\n',
}
RENDER_CONFIGS = [
    ('Html', {}), ('Html', {'process_html_tokens': False}), ('Markdown', {}), ('Markdown', {'max_line_length': 20}), ('LaTeX', {}), ('Ast', {}),
    ('Toc', {}), ('GithubWiki', {}), ('MathJax', {}), ('Pygments', {}), ('Pygments', {'style': 'monokai'}), ('Jira', {}), ('XWiki20', {}),
]
QUICK_CONFIGS = [('Html', {}), ('Markdown', {}), ('LaTeX', {}), ('XWiki20', {})]
QUICK_EXTRA_CONFIGS = [('Toc', {}), ('Pygments', {}), ('Pygments', {'style': 'monokai'})]
QUICK_DOCS = ['code', 'setext', 'custom-tag', 'html-interrupt', 'quote-setext', 'empty-atx', 'entity-def', 'entity-inline']
QUICK_EXTRA_DOCS = ['toc-ref', 'unicode-punct', 'code-pipe', 'fence', 'tight-list', 'toc-def', 'table-probe-code', 'table-probe-html', 'table-line2']


SUBCLASS_DOCS = ['html', 'fence', 'atx', 'custom-tag', 'html-interrupt']


class Boom(Exception):
    pass


def fault_token(kind):
    """A custom token that raises at the prescribed point when it meets the word BOOM."""
    if kind == 'span-find':
        class FaultSpan(span_token.SpanToken):
            @classmethod
            def find(cls, string):
                if 'BOOM' in string:
                    raise Boom('find')
                return []
        return FaultSpan, span_token
    if kind == 'span-ctor':
        import re

        class FaultSpanC(span_token.SpanToken):
            pattern = re.compile(r'(BOOM)')
            parse_inner = False

            def __init__(self, match):
                raise Boom('ctor')
        return FaultSpanC, span_token
    if kind == 'block-start':
        class FaultBlock(block_token.BlockToken):
            @classmethod
            def start(cls, line):
                if 'BOOM' in line:
                    raise Boom('start')
                return False
        return FaultBlock, block_token
    if kind == 'block-read':
        class FaultBlockR(block_token.BlockToken):
            @classmethod
            def start(cls, line):
                return 'BOOM' in line

            @classmethod
            def read(cls, lines):
                next(lines)
                raise Boom('read')
        return FaultBlockR, block_token
    raise ValueError(kind)


FAULT_KINDS = ['span-find', 'span-ctor', 'block-start', 'block-read']
TRIGGERS = {
    'top': 'a `c` BOOM `d` [l]\n\n[l]: /u\n',
    'quote': '> x `c` BOOM\n> more\n',
    'list': '- x `c` BOOM\n\n  more\n',
    'quote-later': '> ok\n>\n> BOOM `c`\n',
    'after-heading': '## h ##\n\n```info\n\n<!--\nBOOM `c`\n',
}


def defaults_ok():
    return (block_token._token_types == [getattr(block_token, n) for n in block_token.__all__]
            and span_token._token_types == [getattr(span_token, n) for n in span_token.__all__])


def state_signature():
    """Dirty-state signature (evidence only; internal names are looked up defensively)."""
    from mistletoe import core_tokens, token
    import html
    def g(obj, name, default='?'):
        return getattr(obj, name, default)
    sig = (
        len(g(core_tokens, '_code_matches', [])),
        g(block_token.Paragraph, 'parse_setext'),
        g(token, '_root_node', None) is None,
        g(html, '_charref', None) is g(mistletoe.span_tokenizer, '_stdlib_charref', None),
        g(block_token.Heading, 'level'), g(block_token.Heading, 'closing_sequence', ''),
        repr(g(block_token.CodeFence, '_open_info', None)),
        g(getattr(block_token, 'HtmlBlock', None), '_end_cond', None),
    )
    return sig


# ---- fresh reference values ----------------------------------------------------------------------

_CHILD = r'''
import json, sys
job = json.load(sys.stdin)
from rtmon import mt, tree
from rtmon.props import c11
out = {}
try:
    if job['kind'] == 'render':
        out['value'] = c11.render_value(c11.DOCS[job['doc']], job['renderer'], job['opts'])
    elif job['kind'] == 'bare':
        out['value'] = json.dumps(tree.canon(mt.Document(c11.DOCS[job['doc']]), lines=True), sort_keys=True, default=repr)
    elif job['kind'] == 'scheme':
        out['value'] = repr(c11.scheme_session(job.get('program', 'define-and-use')))
    elif job['kind'] == 'toc':
        out['value'] = c11.toc_value(c11.DOCS[job['doc']], None)
    elif job['kind'] == 'subclass':
        out['value'] = c11.subclass_session(c11.DOCS[job['doc']])
except Exception as e:
    out['value'] = 'EXC ' + type(e).__name__
print(json.dumps(out))
'''


def render_value(doc_text, rname, opts):
    """What a caller observes from one renderer session: the output, and for TocRenderer also its table of contents
    (built by tokenizing the collected heading texts outside of any Document)."""
    cls = mt.renderer_class(rname)
    with cls(**opts) as r:
        val = r.render(Document(doc_text))
        if rname == 'Toc':
            try:
                toc = json.dumps(tree.canon(r.toc), sort_keys=True, default=repr)
            except Exception as e:  # noqa  (no qualifying heading: IndexError, also in a fresh process)
                toc = 'EXC ' + type(e).__name__
            val += '\n--toc--\n' + toc
    return val


def render_value_in(r, doc_text):
    """The output of one more document through an instance that is already in use.  For TocRenderer the value of a fresh session
    carries the table of contents too; a reused instance is only asked for the same thing when it has collected nothing before
    (the attribute accumulates by design), so here the output alone is compared, with the fresh session's toc part cut off."""
    return r.render(Document(doc_text))


def subclass_session(doc_text):
    """A renderer whose extra tokens are plain subclasses of the built-in block tokens that keep class-level scratch
    (they are tried before their bases): whatever start() leaves for read() must be found on the subclass."""
    from mistletoe import HtmlRenderer

    class SubHeading(block_token.Heading):
        pass

    class SubFence(block_token.CodeFence):
        pass

    class SubHtml(block_token.HtmlBlock):
        pass

    class R(HtmlRenderer):
        def __init__(self):
            super().__init__(SubHeading, SubFence, SubHtml)

        def render_sub_heading(self, token):
            return self.render_heading(token)

        def render_sub_fence(self, token):
            return self.render_block_code(token)

        def render_sub_html(self, token):
            return self.render_html_block(token)
    with R() as r:
        return r.render(Document(doc_text))


def reuse_after_render_error(kind, doc_text):
    """One renderer instance: a rendering that raises (a documented refusal, or a custom token's render function), then
    another document through the same instance."""
    if kind == 'latex-verb':
        from mistletoe.latex_renderer import LaTeXRenderer
        with LaTeXRenderer() as r:
            try:
                import string
                r.render(Document(DOCS['latex-packages'] + '\n- x `` ' + string.punctuation + string.digits + ' `` y\n'))
                fired = False
            except RuntimeError:
                fired = True
            return fired, r.render(Document(doc_text))
    if kind == 'pygments-unknown-language':
        from mistletoe.contrib.pygments_renderer import PygmentsRenderer
        with PygmentsRenderer(fail_on_unsupported_language=True) as r:
            try:
                r.render(Document('- a\n  ```nosuchlang\n  x\n  ```\n- b\n'))
                fired = False
            except Exception:  # noqa
                fired = True
            return fired, r.render(Document(doc_text))
    from mistletoe import HtmlRenderer

    class Bad(span_token.SpanToken):
        pattern = __import__('re').compile(r'BAD(x)?')

    class R(HtmlRenderer):
        def __init__(self):
            super().__init__(Bad)

        def render_bad(self, token):
            raise Boom()
    with R() as r:
        try:
            r.render(Document('> - a BAD\n> - b\n'))
            fired = False
        except Boom:
            fired = True
        return fired, r.render(Document(doc_text))


REUSE_KINDS = {'latex-verb': ('LaTeX', {}), 'pygments-unknown-language': ('Pygments', {'fail_on_unsupported_language': True}), 'html-custom-render': ('Html', {})}


def toc_value(doc_text, between):
    """TocRenderer session: render a document, optionally do something else (``between``), then read the table of contents."""
    from mistletoe.contrib.toc_renderer import TocRenderer
    with TocRenderer() as r:
        r.render(Document(doc_text))
        if between is not None:
            between(r)
        try:
            return json.dumps(tree.canon(r.toc), sort_keys=True, default=repr)
        except Exception as e:  # noqa
            return 'EXC ' + type(e).__name__


def job_key(job):
    return json.dumps(job, sort_keys=True)


def all_jobs(tier):
    jobs = []
    configs = RENDER_CONFIGS
    for d in DOCS:
        for r, o in configs:
            jobs.append({'kind': 'render', 'doc': d, 'renderer': r, 'opts': o})
        jobs.append({'kind': 'bare', 'doc': d})
    jobs.append({'kind': 'scheme'})
    for prog in SCHEME_PROGRAMS:
        jobs.append({'kind': 'scheme', 'program': prog})
    jobs.append({'kind': 'toc', 'doc': 'toc-ref'})
    for d in SUBCLASS_DOCS:
        jobs.append({'kind': 'subclass', 'doc': d})
    jobs.append({'kind': 'render', 'doc': 'tight-list', 'renderer': 'Pygments', 'opts': {'fail_on_unsupported_language': True}})
    return jobs


def prepare(tier, seed):
    """Parent-side: compute the fresh table with one new interpreter per job, 16 at a time."""
    jobs = all_jobs(tier)
    table = {}
    pending = list(jobs)
    running = []
    env = dict(os.environ)
    while pending or running:
        while pending and len(running) < 16:
            j = pending.pop()
            p = subprocess.Popen([sys.executable, '-c', _CHILD], stdin=subprocess.PIPE, stdout=subprocess.PIPE, stderr=subprocess.PIPE,
                                 text=True, env=env, cwd=HOME)
            p.stdin.write(json.dumps(j))
            p.stdin.close()
            running.append((j, p, time.time()))
        still = []
        for j, p, t0 in running:
            if p.poll() is None:
                if time.time() - t0 > 120:
                    p.kill()
                else:
                    still.append((j, p, t0))
                continue
            outp = p.stdout.read()
            try:
                table[job_key(j)] = json.loads(outp.strip().splitlines()[-1])['value']
            except Exception:
                table[job_key(j)] = None
        running = still
        time.sleep(0.01)
    os.makedirs(os.path.join(HOME, 'out'), exist_ok=True)
    path = os.path.join(HOME, 'out', 'c11-fresh-%d.json' % os.getpid())
    with open(path, 'w') as f:
        json.dump(table, f)
    global _fresh_path
    _fresh_path = path
    return {'VERIF_C11_FRESH': path}


_fresh_path = None


def cleanup():
    if _fresh_path and os.path.exists(_fresh_path):
        os.remove(_fresh_path)


_table = None


def fresh(job):
    global _table
    if _table is None:
        path = os.environ.get('VERIF_C11_FRESH')
        if path and os.path.exists(path):
            with open(path) as f:
                _table = json.load(f)
        else:
            _table = {}
    k = job_key(job)
    if k not in _table:
        # replay mode / missing entry: compute in a new interpreter now
        p = subprocess.run([sys.executable, '-c', _CHILD], input=json.dumps(job), capture_output=True, text=True, cwd=HOME, timeout=120)
        try:
            _table[k] = json.loads(p.stdout.strip().splitlines()[-1])['value']
        except Exception:
            _table[k] = None
    return _table[k]


# ---- executing steps -----------------------------------------------------------------------------

SCHEME_PROGRAMS = {
    'define-and-use': ['(define x 40)', '(+ x 2)'],
    'use-only': ['(+ x 2)'],                       # x is not defined here: an error, unless an earlier session leaked it
    'redefine-constant': ['(define false true)', '(if false 1 2)'],
    'constant': ['(if false 1 2)'],
}


def scheme_session(program='define-and-use'):
    from mistletoe.contrib.scheme import Scheme, Program
    with Scheme() as r:
        return r.render(Program(list(SCHEME_PROGRAMS[program])))


def run_step(step):
    """Executes one step of a history with the real library.  Returns a list of observations
    (job, observed value) plus 'reset_ok' after every renderer context."""
    obs = []
    kind = step['kind']
    if kind == 'render':
        try:
            val = render_value(DOCS[step['doc']], step['renderer'], step['opts'])
        except Exception as e:  # noqa
            val = 'EXC ' + type(e).__name__
        obs.append(({'kind': 'render', 'doc': step['doc'], 'renderer': step['renderer'], 'opts': step['opts']}, val))
        obs.append(('reset', defaults_ok()))
    elif kind == 'bare':
        try:
            val = json.dumps(tree.canon(Document(DOCS[step['doc']]), lines=True), sort_keys=True, default=repr)
        except Exception as e:  # noqa
            val = 'EXC ' + type(e).__name__
        obs.append(({'kind': 'bare', 'doc': step['doc']}, val))
    elif kind == 'scheme':
        try:
            val = repr(scheme_session(step.get('program', 'define-and-use')))
        except Exception as e:  # noqa
            val = 'EXC ' + type(e).__name__
        obs.append(({'kind': 'scheme', 'program': step['program']} if 'program' in step else {'kind': 'scheme'}, val))
        obs.append(('reset', defaults_ok()))
    elif kind == 'fault':
        F, module = fault_token(step['fault'])
        trigger = TRIGGERS[step['place']]
        if step['renderer'] is None:
            # bare use: the caller registers and removes the token himself
            pos = min(step['pos'], len(module._token_types) - (1 if module is span_token else 0))
            module.add_token(F, pos)
            try:
                Document(trigger)
                obs.append(('fault-fired', False))
            except Boom:
                obs.append(('fault-fired', True))
            except Exception as e:  # noqa  (another exception caused by the odd position: still a fault)
                obs.append(('fault-fired', type(e).__name__))
            finally:
                module.remove_token(F)
        else:
            cls = mt.renderer_class(step['renderer'])
            try:
                with cls(**step['opts']) as r:
                    pos = min(step['pos'], len(module._token_types) - (1 if module is span_token else 0))
                    module.add_token(F, pos)
                    if step.get('caught'):
                        try:
                            r.render(Document(trigger))
                            obs.append(('fault-fired', False))
                        except Boom:
                            obs.append(('fault-fired', True))
                        module.remove_token(F)
                        d = step.get('then', 'code')
                        try:
                            val = r.render(Document(DOCS[d]))
                        except Exception as e:  # noqa
                            val = 'EXC ' + type(e).__name__
                        obs.append(({'kind': 'render', 'doc': d, 'renderer': step['renderer'], 'opts': step['opts']}, val))
                    else:
                        r.render(Document(trigger))
                        obs.append(('fault-fired', False))
            except Boom:
                obs.append(('fault-fired', True))
            except Exception as e:  # noqa
                obs.append(('fault-fired', type(e).__name__))
            obs.append(('reset', defaults_ok()))
    elif kind == 'subclass':
        try:
            val = subclass_session(DOCS[step['doc']])
        except Exception as e:  # noqa
            val = 'EXC ' + type(e).__name__
        obs.append(({'kind': 'subclass', 'doc': step['doc']}, val))
        obs.append(('reset', defaults_ok()))
    elif kind == 'reuse-after-render-error':
        rname, ropts = REUSE_KINDS[step['how']]
        try:
            fired, val = reuse_after_render_error(step['how'], DOCS[step['doc']])
            obs.append(('fault-fired', fired))
        except Exception as e:  # noqa
            val = 'EXC ' + type(e).__name__
        # the second document through the same instance must come out as through a fresh one
        obs.append(({'kind': 'render', 'doc': step['doc'], 'renderer': rname, 'opts': ropts}, val))
        obs.append(('reset', defaults_ok()))
    elif kind == 'markdown-api':
        # the one-call API (what the command-line tool uses): mistletoe.markdown(text, RendererClass), here with a renderer
        # class that brings a token which raises on the trigger document; then the same call with an ordinary document
        import mistletoe
        base = mt.renderer_class(step['renderer'])
        F, module = fault_token(step['fault'])

        class Faulty(base):
            def __init__(self, **kw):
                super().__init__(F, **kw)

            def _nothing(self, token, *a, **kw):       # (a renderer has to bring a render function for its token)
                return ''
            render_fault_span = render_fault_span_c = render_fault_block = render_fault_block_r = _nothing
        try:
            mistletoe.markdown(TRIGGERS[step['place']], Faulty)
            obs.append(('fault-fired', False))
        except Boom:
            obs.append(('fault-fired', True))
        except Exception as e:  # noqa
            obs.append(('fault-fired', type(e).__name__))
        obs.append(('reset', defaults_ok()))
        try:
            val = mistletoe.markdown(DOCS[step['doc']], base)
        except Exception as e:  # noqa
            val = 'EXC ' + type(e).__name__
        if step['renderer'] != 'Toc':
            obs.append(({'kind': 'render', 'doc': step['doc'], 'renderer': step['renderer'], 'opts': {}}, val))
        obs.append(('reset', defaults_ok()))
    elif kind == 'same-instance':
        # enter R, parse+render the first document, parse+render the second one, exit: the second output is the fresh one
        cls = mt.renderer_class(step['renderer'])
        try:
            with cls(**step['opts']) as r:
                try:
                    r.render(Document(DOCS[step['first']]))
                except Exception:  # noqa  (whatever the first document does is not judged here)
                    pass
                try:
                    val = render_value_in(r, DOCS[step['doc']])
                except Exception as e:  # noqa
                    val = 'EXC ' + type(e).__name__
        except Exception as e:  # noqa
            val = 'EXC ' + type(e).__name__
        obs.append(({'kind': 'render', 'doc': step['doc'], 'renderer': step['renderer'], 'opts': step['opts']}, val))
        obs.append(('reset', defaults_ok()))
    elif kind == 're-enter':
        # ONE renderer instance used as a context manager twice (enter, parse+render, exit, ..., enter again, parse+render,
        # exit): what it produces the second time is what a fresh instance produces, whatever happened between the two uses
        # (nothing / a session of another renderer / a parse that raised).  The exit of the first use took the instance's
        # tokens out of the parsing process; "earlier library use" here is the first use of the very same instance.
        if step['renderer'] == 'Scheme':
            from mistletoe.contrib.scheme import Scheme, Program
            try:
                r = Scheme()
                with r:
                    r.render(Program(list(SCHEME_PROGRAMS['constant'])))
                obs.append(('reset', defaults_ok()))
                with r:
                    val = repr(r.render(Program(list(SCHEME_PROGRAMS['constant']))))
            except Exception as e:  # noqa
                val = 'EXC ' + type(e).__name__
            obs.append(({'kind': 'scheme', 'program': 'constant'}, val))
            obs.append(('reset', defaults_ok()))
            return obs
        cls = mt.renderer_class(step['renderer'])
        try:
            r = cls(**step['opts'])
            with r:
                try:
                    r.render(Document(DOCS[step['first']]))
                except Exception:  # noqa  (whatever the first document does is not judged here)
                    pass
            obs.append(('reset', defaults_ok()))
            between = step.get('between')
            if between == 'fault':
                F, module = fault_token('span-find')
                module.add_token(F, 4)
                try:
                    Document(TRIGGERS['top'])
                except Exception:  # noqa
                    pass
                finally:
                    module.remove_token(F)
            elif between:
                try:
                    render_value(DOCS['code'], between[0], between[1])
                except Exception:  # noqa
                    pass
            with r:
                val = render_value_in(r, DOCS[step['doc']])
        except Exception as e:  # noqa
            val = 'EXC ' + type(e).__name__
        obs.append(({'kind': 'render', 'doc': step['doc'], 'renderer': step['renderer'], 'opts': step['opts']}, val))
        obs.append(('reset', defaults_ok()))
    elif kind == 'nested-exit':
        # a renderer context opened and closed while another one is still open: the statement's last sentence holds for it too
        # (on exit the token sets are the defaults, whatever is still open outside)
        outer, inner = mt.renderer_class(step['outer'][0]), mt.renderer_class(step['inner'][0])
        try:
            with outer(**step['outer'][1]):
                with inner(**step['inner'][1]) as r:
                    r.render(Document(DOCS['code']))
                obs.append(('reset', defaults_ok()))
        except Exception as e:  # noqa  (an outer renderer may not survive the reset: not judged here)
            obs.append(('nested-outer-failed', type(e).__name__))
        obs.append(('reset', defaults_ok()))
    elif kind == 'toc-after-abort':
        # inside one TocRenderer session: render, then a parse that is aborted by a raising custom token, then read .toc
        F, module = fault_token(step['fault'])

        def between(r):
            module.add_token(F, min(step['pos'], len(module._token_types) - (1 if module is span_token else 0)))
            try:
                Document(TRIGGERS[step['place']])
                obs.append(('fault-fired', False))
            except Boom:
                obs.append(('fault-fired', True))
            except Exception as e:  # noqa
                obs.append(('fault-fired', type(e).__name__))
            finally:
                module.remove_token(F)
        try:
            val = toc_value(DOCS['toc-ref'], between)
        except Exception as e:  # noqa
            val = 'EXC ' + type(e).__name__
        obs.append(({'kind': 'toc', 'doc': 'toc-ref'}, val))
        obs.append(('reset', defaults_ok()))
    elif kind == 'deep':
        # a parse that ends in RecursionError (nesting > 100) inside quote content
        try:
            Document('>' * 600 + ' a\n')
            obs.append(('fault-fired', False))
        except RecursionError:
            obs.append(('fault-fired', 'RecursionError'))
    return obs


_FRESH_CHILD = r'''
import json, sys
hist = json.load(sys.stdin)
from rtmon.props import c11
from rtmon.props.c16 import _Probe
p = _Probe()
p.seen = lambda *a, **k: False
c11.run_history(p, hist, 'fresh-confirmation', confirm=False)
print(json.dumps({'violates': bool(p.bad)}))
'''


def violates_in_fresh_process(history):
    """Does this history, run from the start of a new interpreter, break the property?  (Makes witnesses replayable and
    tells a leak inside the history from residue of earlier histories of the same shard.)"""
    try:
        p = subprocess.run([sys.executable, '-c', _FRESH_CHILD], input=json.dumps(history), capture_output=True, text=True, cwd=HOME, timeout=120)
        return json.loads(p.stdout.strip().splitlines()[-1])['violates']
    except Exception:
        return None


import collections as _collections

_trail = _collections.deque(maxlen=600)      # every step executed in this shard, oldest first
_confirmations = [0]


def minimise_trail(trail, tail, budget=24):
    """ddmin-style: drop chunks of the leading trail while trail+tail still violates in a fresh interpreter."""
    trail = list(trail)
    n = 2
    while len(trail) >= 1 and budget > 0:
        size = max(1, len(trail) // n)
        removed = False
        for i in range(0, len(trail), size):
            cand = trail[:i] + trail[i + size:]
            budget -= 1
            if violates_in_fresh_process(cand + tail):
                trail = cand
                n = max(2, n - 1)
                removed = True
                break
            if budget <= 0:
                break
        if not removed:
            if size == 1:
                break
            n = min(len(trail), n * 2)
    return trail


def witness(history_prefix):
    """A history that reproduces the violation from the start of a NEW interpreter: this history alone if that is
    enough, else with as little as possible of what the shard executed before it (the leak may come from far back)."""
    if _confirmations[0] >= 6:
        return list(_trail)[-40:] + history_prefix, 'not confirmed in a fresh interpreter (confirmation budget used up)'
    _confirmations[0] += 1
    if violates_in_fresh_process(history_prefix):
        return history_prefix, 'reproduced in a fresh interpreter'
    done = len(history_prefix)
    before = list(_trail)
    for k in (8, 60, 600):
        lead = before[-k:]
        if violates_in_fresh_process(lead + history_prefix):
            lead = minimise_trail(lead, history_prefix)
            return lead + history_prefix, 'reproduced in a fresh interpreter together with %d earlier step(s) of the shard' % len(lead)
        if k >= len(before):
            break
    return before[-40:] + history_prefix, 'NOT reproduced in a fresh interpreter (depends on residue older than 600 steps)'


def run_history(ctx, history, source, confirm=True):
    ctx.ev()
    mt.reset()
    sigs = []
    for i, step in enumerate(history):
        sig = state_signature()
        sigs.append(sig)
        try:
            obs = run_step(step)
        finally:
            pass
        for what, val in obs:
            if what == 'reset':
                ctx.count('checks', 'token lists after context exit')
                if not val:
                    w, how = witness(history[:i + 1]) if confirm else (history[:i + 1], '')
                    ctx.violation('token-sets-not-reset', 'after %s' % step_name(step), {'history': w, 'source': source, 'confirmation': how},
                                  block=[t.__name__ for t in block_token._token_types], span=[t.__name__ for t in span_token._token_types])
                    mt.reset()
            elif what == 'fault-fired':
                ctx.count('faults', '%s fired=%s' % (step.get('fault') or (step['kind'] + ':' + step.get('how', '')), val))
                if val is not False:
                    ctx.seen('fault-placements', [step.get('fault'), step.get('pos'), step.get('place'), step.get('renderer')])
            else:
                want = fresh(what)
                ctx.count('checks', 'probe vs fresh interpreter')
                if want is None:
                    ctx.count('checks', 'fresh value missing (skipped)')
                    continue
                if step['kind'] in ('same-instance', 're-enter') and '\n--toc--\n' in want:
                    want = want.split('\n--toc--\n')[0]      # (output only, see render_value_in)
                if i > 0:
                    if ctx.seen('dirty-signatures', repr(sig)):
                        ctx.count('signature', repr(sig)[:160])
                if val != want:
                    prev = [step_name(s) for s in history[:i]]
                    w, how = witness(history[:i + 1]) if confirm else (history[:i + 1], '')
                    ctx.violation('depends-on-history', 'probe %s differs after %s' % (probe_name(what), prev[-1] if prev else '(nothing)'),
                                  {'history': w, 'source': source, 'confirmation': how}, expected=want, observed=val)
    if len(history) > 1:
        ctx.seen('nontrivial', history)
    if confirm:
        _trail.extend(history)
    mt.reset()
    # undo known residue kinds so that one leak is reported once per history, not for all later histories
    try:
        block_token.Paragraph.parse_setext = True
        from mistletoe import core_tokens
        core_tokens._code_matches = []
    except Exception:
        pass


def step_name(s):
    if s['kind'] == 'render':
        return 'render(%s,%s)' % (s['renderer'], s['doc'])
    if s['kind'] == 'bare':
        return 'parse(%s)' % s['doc']
    if s['kind'] == 'subclass':
        return 'subclass-session(%s)' % s['doc']
    if s['kind'] == 'reuse-after-render-error':
        return 'reuse-after-render-error(%s,%s)' % (s['how'], s['doc'])
    if s['kind'] == 'markdown-api':
        return 'markdown-api(%s, %s@%s then %s)' % (s['renderer'], s['fault'], s['place'], s['doc'])
    if s['kind'] == 'same-instance':
        return 'same-instance(%s: %s then %s)' % (s['renderer'], s['first'], s['doc'])
    if s['kind'] == 're-enter':
        b = s.get('between')
        return 're-enter(%s: %s, exit, %senter again, %s)' % (s['renderer'], s.get('first'), ('%s, ' % (b if b == 'fault' else b[0] + ' session')) if b else '',
                                                               s.get('doc'))
    if s['kind'] == 'nested-exit':
        return 'nested-exit(%s in %s)' % (s['inner'][0], s['outer'][0])
    if s['kind'] == 'toc-after-abort':
        return 'toc-after-abort(%s@%s,%s)' % (s['fault'], s['pos'], s['place'])
    if s['kind'] == 'fault':
        return 'fault(%s@%s,%s,%s%s%s)' % (s['fault'], s['pos'], s['place'], s['renderer'] or 'bare', '-no-html-tokens' if s['opts'] else '',
                                           ',caught' if s.get('caught') else '')
    if s['kind'] == 'scheme' and 'program' in s:
        return 'scheme(%s)' % s['program']
    return s['kind']


def probe_name(job):
    if job['kind'] == 'render':
        return '%s(%s)' % (job['renderer'], job['doc'])
    return '%s(%s)' % (job['kind'], job.get('doc', ''))


# ---- alphabets -------------------------------------------------------------------------------------

def quick_extra_alphabet():
    """Steps that take part in all pairs (with the core alphabet and each other) and in random histories, but not in the
    exhaustive triples of the quick tier."""
    steps = []
    for r, o in QUICK_EXTRA_CONFIGS:
        for d in QUICK_EXTRA_DOCS:
            steps.append({'kind': 'render', 'renderer': r, 'opts': o, 'doc': d})
    for r, o in QUICK_CONFIGS[:1]:
        for d in QUICK_EXTRA_DOCS:
            steps.append({'kind': 'render', 'renderer': r, 'opts': o, 'doc': d})
    for prog in SCHEME_PROGRAMS:
        steps.append({'kind': 'scheme', 'program': prog})
    steps.append({'kind': 'toc-after-abort', 'fault': 'span-find', 'pos': 5, 'place': 'top'})
    steps.append({'kind': 'toc-after-abort', 'fault': 'block-start', 'pos': 0, 'place': 'quote-later'})
    steps.append({'kind': 'subclass', 'doc': 'html'})
    steps.append({'kind': 'subclass', 'doc': 'atx'})
    for how in REUSE_KINDS:
        steps.append({'kind': 'reuse-after-render-error', 'how': how, 'doc': 'tight-list' if how != 'latex-verb' else 'code'})
        steps.append({'kind': 'reuse-after-render-error', 'how': how, 'doc': 'specials'})
    steps.append({'kind': 'nested-exit', 'outer': ['Ast', {}], 'inner': ['Html', {}]})
    steps.append({'kind': 'nested-exit', 'outer': ['Html', {}], 'inner': ['LaTeX', {}]})
    for r, f, place in (('Html', 'span-find', 'top'), ('LaTeX', 'block-start', 'quote-later'), ('Ast', 'span-ctor', 'quote')):
        steps.append({'kind': 'markdown-api', 'renderer': r, 'fault': f, 'place': place, 'doc': 'code'})
    for r, o in (('Html', {}), ('LaTeX', {}), ('Markdown', {}), ('Toc', {})):
        for first, second in SAME_INSTANCE_PAIRS[:4]:
            steps.append({'kind': 'same-instance', 'renderer': r, 'opts': o, 'first': first, 'doc': second})
    for r, o, between in (('Html', {}, None), ('Markdown', {}, ['Html', {}]), ('LaTeX', {}, 'fault'), ('Toc', {}, None), ('XWiki20', {}, None)):
        first, second = RE_ENTER_PAIRS[0]
        steps.append({'kind': 're-enter', 'renderer': r, 'opts': o, 'first': first, 'doc': second, 'between': between})
    steps.append({'kind': 're-enter', 'renderer': 'Scheme'})
    return steps


# one renderer instance entered twice: the second document touches the tokens the renderer brings (raw HTML, definitions, math,
# wiki links, strikethrough) - they are what the first exit removed
RE_ENTER_PAIRS = [('code', 'html'), ('html', 'custom-tag'), ('ref', 'toc-ref'), ('fence', 'entity-def'), ('setext', 'ext')]


# one renderer instance, two documents one after the other (what the first leaves on the instance must not show in the second)
SAME_INSTANCE_PAIRS = [('code', 'specials'), ('code-pipe', 'code'), ('ref', 'toc-ref'), ('html', 'setext'), ('fence', 'code'), ('table', 'table-probe-code'), ('entity-def', 'entity-inline')]


def quick_alphabet():
    steps = []
    for r, o in QUICK_CONFIGS:
        for d in QUICK_DOCS:
            steps.append({'kind': 'render', 'renderer': r, 'opts': o, 'doc': d})
    for d in QUICK_DOCS:
        steps.append({'kind': 'bare', 'doc': d})
    steps.append({'kind': 'scheme'})
    for f, pos, place, r in [('span-find', 5, 'top', 'Html'), ('span-find', 5, 'quote', 'Html'), ('span-find', 4, 'list', None),
                             ('span-ctor', 1, 'quote', 'Markdown'), ('block-start', 0, 'quote-later', 'Html'), ('block-read', 3, 'list', None),
                             ('block-start', 2, 'after-heading', 'Html'), ('span-find', 4, 'top', None)]:
        steps.append({'kind': 'fault', 'fault': f, 'pos': pos, 'place': place, 'renderer': r, 'opts': {}})
    # renderers that register no tokens of their own: whatever the caller added inside the context must still be gone afterwards
    steps.append({'kind': 'fault', 'fault': 'span-find', 'pos': 4, 'place': 'top', 'renderer': 'Ast', 'opts': {}})
    steps.append({'kind': 'fault', 'fault': 'block-start', 'pos': 0, 'place': 'quote-later', 'renderer': 'Html', 'opts': {'process_html_tokens': False}})
    steps.append({'kind': 'fault', 'fault': 'span-find', 'pos': 5, 'place': 'quote', 'renderer': 'Html', 'opts': {}, 'caught': True, 'then': 'code'})
    return steps


def full_alphabet():
    steps = []
    for r, o in RENDER_CONFIGS:
        for d in DOCS:
            steps.append({'kind': 'render', 'renderer': r, 'opts': o, 'doc': d})
    for d in DOCS:
        steps.append({'kind': 'bare', 'doc': d})
    steps.append({'kind': 'scheme'})
    for prog in SCHEME_PROGRAMS:
        steps.append({'kind': 'scheme', 'program': prog})
    steps.append({'kind': 'deep'})
    for d in SUBCLASS_DOCS:
        steps.append({'kind': 'subclass', 'doc': d})
    for how in REUSE_KINDS:
        for d in ('tight-list', 'code', 'latex-packages', 'setext', 'specials'):
            steps.append({'kind': 'reuse-after-render-error', 'how': how, 'doc': d})
    for r in ('Html', 'Markdown', 'LaTeX', 'Ast', 'Jira', 'XWiki20', 'GithubWiki', 'MathJax', 'Pygments'):
        for f in FAULT_KINDS:
            for place in ('top', 'quote-later'):
                steps.append({'kind': 'markdown-api', 'renderer': r, 'fault': f, 'place': place, 'doc': 'code' if f.startswith('span') else 'setext'})
    for r, o in RENDER_CONFIGS:
        for first, second in SAME_INSTANCE_PAIRS:
            steps.append({'kind': 'same-instance', 'renderer': r, 'opts': o, 'first': first, 'doc': second})
    for r, o in RENDER_CONFIGS:
        for first, second in RE_ENTER_PAIRS:
            for between in (None, ['Html', {}], ['Markdown', {}], 'fault'):
                steps.append({'kind': 're-enter', 'renderer': r, 'opts': o, 'first': first, 'doc': second, 'between': between})
    steps.append({'kind': 're-enter', 'renderer': 'Scheme'})
    for ro, oo in RENDER_CONFIGS:
        for ri, oi in RENDER_CONFIGS:
            if ro != 'Markdown' or ri != 'Markdown':       # (two MarkdownRenderers cannot be constructed one inside the other)
                steps.append({'kind': 'nested-exit', 'outer': [ro, oo], 'inner': [ri, oi]})
    for f in FAULT_KINDS:
        for place in TRIGGERS:
            steps.append({'kind': 'toc-after-abort', 'fault': f, 'pos': 5 if f.startswith('span') else 0, 'place': place})
    for f in FAULT_KINDS:
        for place in TRIGGERS:
            for r, o in ((None, {}), ('Html', {}), ('Markdown', {}), ('LaTeX', {}), ('XWiki20', {}), ('Ast', {}), ('Html', {'process_html_tokens': False})):
                for pos in range(0, 11):
                    steps.append({'kind': 'fault', 'fault': f, 'pos': pos, 'place': place, 'renderer': r, 'opts': o})
                    if r and pos in (1, 5):
                        steps.append({'kind': 'fault', 'fault': f, 'pos': pos, 'place': place, 'renderer': r, 'opts': o, 'caught': True,
                                      'then': 'code' if f.startswith('span') else 'setext'})
    return steps


def plan(tier):
    if tier == 'quick':
        return {'shards': 8, 'budget_s': 90}
    return {'shards': 16, 'budget_s': 1500}


def run(ctx):
    rng = ctx.rng
    qa = quick_alphabet()
    fa = full_alphabet()
    probes = [s for s in fa if s['kind'] in ('render', 'bare')]
    idx = 0
    # (1) every single step from a clean process state (sanity of the fresh table + each fault alone)
    for s in fa:
        idx += 1
        if idx % ctx.nshards == ctx.shard:
            run_history(ctx, [s], 'single')
    # (2) all histories of length 2 and 3 over the quick alphabet
    for n in (2, 3):
        for hist in itertools.product(qa, repeat=n):
            idx += 1
            if idx % ctx.nshards != ctx.shard:
                continue
            if ctx.out_of_time():
                break
            run_history(ctx, list(hist), 'exhaustive-quick-alphabet-%d' % n)
    ctx.note('all histories of length <= 3 over the %d-step quick alphabet enumerated (each step is also a probe)' % len(qa))
    # (2b) all ordered pairs over the quick alphabet extended by the extra steps (other renderers, sessions with subclassed
    # tokens, one instance reused after a failed rendering, nested contexts, .toc after an aborted parse)
    qx = qa + quick_extra_alphabet()
    for a in qx:
        for b in qx:
            if a in qa and b in qa:
                continue
            idx += 1
            if idx % ctx.nshards != ctx.shard:
                continue
            if ctx.out_of_time():
                break
            run_history(ctx, [a, b], 'exhaustive-quick-extra-2')
    ctx.note('all ordered pairs involving one of the %d extra quick steps enumerated' % (len(qx) - len(qa)))
    # (3) every fault of the full alphabet followed by every probe of the quick alphabet (fault x consumer matrix)
    faults = [s for s in fa if s['kind'] in ('fault', 'deep')]
    qprobes = [s for s in qa if s['kind'] in ('render', 'bare')]
    if ctx.tier == 'thorough':
        qprobes = probes
    for f in faults:
        for p in qprobes:
            idx += 1
            if idx % ctx.nshards != ctx.shard:
                continue
            if ctx.out_of_time():
                break
            run_history(ctx, [f, p], 'fault-x-probe')
    # (3b) thorough: every ordered pair of steps of the FULL alphabet
    if ctx.tier == 'thorough':
        for a in fa:
            for b in fa:
                idx += 1
                if idx % ctx.nshards != ctx.shard:
                    continue
                if ctx.out_of_time():
                    break
                run_history(ctx, [a, b], 'exhaustive-full-alphabet-2')
        ctx.note('all %d ordered pairs of steps of the full %d-step alphabet enumerated' % (len(fa) ** 2, len(fa)))
    # (4) random histories over the full alphabet
    nrand = 3000 if ctx.tier == 'quick' else 400000
    for k in range(nrand // ctx.nshards):
        if ctx.out_of_time():
            break
        n = rng.choice((3, 4, 4, 5, 6))
        hist = [rng.choice(fa) if rng.random() < 0.6 else rng.choice(qa) for _ in range(n)]
        run_history(ctx, hist, 'random-%d' % n)
        if k < 2:
            ctx.sample([step_name(s) for s in hist])
    # (5) long random histories
    for k in range((4 if ctx.tier == 'quick' else 200) // ctx.nshards + 1):
        if ctx.out_of_time():
            break
        hist = [rng.choice(fa) for _ in range(200)]
        run_history(ctx, hist, 'random-long-200')


def classify(clause, key, case, detail):
    return None


def finalize(m, tier):
    inconclusive = []
    checks = m.c('checks')
    if checks.get('probe vs fresh interpreter', 0) < 5000:
        inconclusive.append('only %d probes were compared with fresh values' % checks.get('probe vs fresh interpreter', 0))
    if checks.get('fresh value missing (skipped)', 0) > checks.get('probe vs fresh interpreter', 1) * 0.01:
        inconclusive.append('fresh reference values missing for more than 1% of the probes')
    fired = sum(v for k, v in m.c('faults').items() if 'fired=False' not in k)
    if fired < 100:
        inconclusive.append('only %d injected faults actually fired' % fired)
    for how in REUSE_KINDS:
        if not m.c('faults').get('reuse-after-render-error:%s fired=True' % how, 0):
            inconclusive.append('the failing rendering of reuse-after-render-error(%s) never raised' % how)
    return {
        'distinct_nontrivial': m.n('nontrivial'),
        'rule': 'a history is a sequence of steps {render d with renderer R in its context; bare Document(d); Scheme session; parse that '
                'raises inside a custom span/block token (find/constructor/start/read) inserted at position p of the live token list, at '
                'top level / in a quote / in a list item, inside a renderer context (exception propagating or caught) or bare; over-deep '
                'parse}. Every render/parse step is a probe compared with the value a fresh interpreter gives; token lists are checked '
                'after every context exit. Enumerated: every single step, all histories of length <= 3 over the quick alphabet, every fault '
                'x every probe; all pairs involving the extra steps (TocRenderer incl. its .toc - also after an aborted parse inside the session -, '
                'PygmentsRenderer with two styles, a renderer whose extra tokens subclass Heading / CodeFence / HtmlBlock, one renderer instance '
                'reused after a rendering that raised, a context opened and closed inside another one); plus random histories (length 3-6 and '
                '200). distinct_nontrivial = distinct histories with at least 2 steps',
        'inconclusive': inconclusive,
        'extra': {'checks': checks, 'faults': m.c('faults'), 'distinct_fault_placements_fired': m.n('fault-placements'),
                  'distinct_dirty_state_signatures_before_a_probe': m.n('dirty-signatures'),
                  'dirty_state_signatures(code_matches,parse_setext,root_none,charref_restored,heading_level,closing_seq,fence_info,html_end_cond)': m.c('signature')},
    }


def replay(ctx, case):
    run_history(ctx, case['history'], case.get('source', 'replay'))
