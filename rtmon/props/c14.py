"""C14 - ordinary prose passes through unchanged (reference-model monitor with an independent inertness predicate)."""
import itertools

from .. import inert, mt

ID = 'C14'
LEVEL = 'exploration'
ASSUMPTIONS = [
    'rtmon.inert accepts only paragraphs to which CommonMark 0.30 + GFM tables/strikethrough give no meaning; it over-rejects on purpose',
    'expected output = <p> + each line stripped of surrounding spaces, joined by newlines, with & < > escaped + </p>',
]

VOCAB = [
    'word', 'Lorem', 'ipsum', 'a', 'I', 'x', 'é', 'ß', '中文', 'snake_case', 'x_y_z', '_', '__', '_x', 'x_', '_private', 'a_', '__init', 'a*b', '*', '**', '2*3',
    '*x', 'x*', '-5', '+1', '-', '+', '--', '---', '#hashtag', 'C#', '#', '##', '#1', '>', '>>', 'a>b', '->', '=>', '=', '==', '===', '<', '<=', 'a<b', '|', '||',
    'a|b', '~', 'a~b', '~5', '^', 'x^2', '$5', '$', '$x$', '50%', '%', '@home', '@', 'a@b', '[', ']', '[x', 'x]', 'AT&T', '&c', '&', '&&', '&amp', '&#', '&;',
    '1.5', '(1)', '3)x', '.', ')', '(', '1.', '2.', '14.', '10)', '1)', '2)', '0.', '1.x', '007', '1', '42', '.5', '...', 'e.g.', 'i.e.,', ',', ';', ':', '::',
    '"quoted"', "'single'", "it's", '"', "'", '!', '!!', '?', 'what?!', '/', 'a/b', '{', '}', '{x}', ':-', ':-:', '-:', '|-', '-|-', '2 * 3', 'a _ b', 'x : y',
    '2 * 3', 'a * b * c', 'x　_　y', '5 * 6 *', '* x *', 'http://x.y/z', 'www.x.y', 'a.b@c.d',
    # delimiter runs next to punctuation: flanking (6.2) decides, and two closers (or two openers) never pair
    '(_', '_)', '(*', '*)', '"_', '_"', '(__', '__)', '._', '_.', 'x_)', '(_x', '*,', ',*', '_,', '!_', 'x*)', '(*x', '**.', '.**', '_;', '-_', '_-',
    # words that are names of HTML elements: without a '<' in front they start nothing (4.6)
    'p', 'table', 'Summary', 'title', 'main', 'form', 'link', 'section', 'header', 'div', 'pre', 'script', 'style', 'hr', 'li', 'body', 'html', 'address', 'details',
    # single tildes that cannot pair (GFM strikethrough needs an opener before a closer)
    '~ 5', '~7', '~x', 'x ~', '~,',
    # 6.2: what merely looks like a character reference
    '&notit;', '&copyfoo;', '&ampere;', '&ltx;', '&nosuch;', '&#99999999;', '&#xFFFFFFF;', '&Amp;', '&#;', '&#x;', '&amp', '&#35',
    # digits that are not ASCII digits never form a list marker (5.2)
    '\u0661.', '\u0663)', '\uff11.', '\u0967.', '\u0661\u0662.', '1\u0662)',
]


def expected(lines):
    text = '\n'.join(l.lstrip(' \t').rstrip(' ') for l in lines)
    text = text.replace('&', '&amp;').replace('<', '&lt;').replace('>', '&gt;')
    return '<p>%s</p>\n' % text


FORMS = ('str', 'str-no-final-newline', 'list-terminated', 'list-unterminated')
PRIOR = ('none', 'aborted-inline-tokenization', 'renderer-without-code-spans', 'document-with-code-spans-and-references', 'setext-headings-off')


def prior_use(kind):
    """An earlier use of the library in the same process; none of them may leave anything behind (they do not on the
    repaired tree: C11 decides that; here the point is that prose passes through whatever came before)."""
    from mistletoe import Document, HtmlRenderer, span_token, block_token
    if kind == 'aborted-inline-tokenization':
        try:
            span_token.tokenize_inner('`code` and a [full][reference] *x*')    # no Document: the reference lookup raises
        except Exception:  # noqa
            pass
    elif kind == 'renderer-without-code-spans':
        with HtmlRenderer() as r:
            span_token.remove_token(span_token.InlineCode)
            r.render(Document('backticks are `literal` here and ``here``\n'))
    elif kind == 'setext-headings-off':
        # the documented switch Paragraph.parse_setext: with it off a line of '=' after text is text (undone by check())
        block_token.Paragraph.parse_setext = False
    elif kind == 'document-with-code-spans-and-references':
        mt.html('[r]: /u "t"\n\n`a` [r] **b** <i>x</i> ~~s~~ ![i](/s)\n\n- > ```\n  > c\n')


def supply(lines, form):
    if form == 'str':
        return '\n'.join(lines) + '\n'
    if form == 'str-no-final-newline':
        return '\n'.join(lines)
    if form == 'list-terminated':
        return [l + '\n' for l in lines]
    return list(lines)


def check(ctx, lines, source, form='str', prior='none'):
    reason = inert.paragraph_reason(lines, setext=prior != 'setext-headings-off')
    if reason:
        ctx.count('rejected_by_predicate', reason)
        return
    ctx.ev()
    src = '\n'.join(lines) + '\n'
    case = {'lines': lines, 'source': source, 'form': form, 'prior': prior}
    ctx.count('input_form', form)
    ctx.count('prior_use', prior)
    try:
        prior_use(prior)
        got = mt.html(supply(lines, form))
    except Exception as e:  # noqa
        ctx.violation('raises', mt.exc_site(e), case, traceback=mt.tb_text(e))
        return
    finally:
        _setext_on()
    exp = expected(lines)
    if got != exp:
        ctx.violation('not-passed-through', mechanism(got, exp), case, expected=exp, observed=got)
        return
    ctx.seen('nontrivial', src)
    for k, l in enumerate(lines):
        toks = l.split(' ')
        pos = 'first' if k == 0 else ('last' if k == len(lines) - 1 else 'middle')
        for j, t in enumerate(toks):
            if t:
                ctx.counters['token_position'][pos + ('-linestart' if j == 0 else '')] += 1


def _setext_on():
    from mistletoe import block_token
    block_token.Paragraph.parse_setext = True


def passes(lines, form='str', prior='none'):
    try:
        prior_use(prior)
        return mt.html(supply(lines, form)) == expected(lines)
    finally:
        _setext_on()


def classify(clause, key, case, detail):
    from ..core import open_findings
    if 'C14-unicode-whitespace' not in [f['id'] for f in open_findings(ID)] or clause != 'not-passed-through':
        return None
    import re
    lines = case['lines']
    # trigger: a line starts with a block marker that is followed by non-ASCII whitespace
    trig = re.compile(r'^ {0,3}(?:[-+*]|#{1,6}|\d{1,9}[.)])[^\S \n]')
    if not any(trig.match(l) for l in lines):
        return None
    # neutraliser: move the marker away from the start of the line, keeping everything else
    neutral = [('w ' + l.lstrip(' ')) if trig.match(l) else l for l in lines]
    if inert.paragraph_reason(neutral, setext=case.get('prior') != 'setext-headings-off') is None and passes(neutral, case.get('form', 'str'), case.get('prior', 'none')):
        return 'C14-unicode-whitespace'
    return None


def pinned_witness(finding):
    return not passes(finding['pinned_witness']['lines'])


def mechanism(got, exp):
    import re
    tags = re.findall(r'</?[a-z0-9]+', got)
    extra = [t for t in tags if t not in ('<p', '</p')]
    if extra:
        return 'markup appeared: %s' % ' '.join(sorted(set(extra))[:5])
    return 'text changed (dropped/added/reordered)'


def make_line(rng, k):
    n = rng.choice((1, 1, 2, 2, 3, 4, 6))
    toks = [rng.choice(VOCAB) for _ in range(n)]
    if rng.random() < 0.12:
        # a number followed by '.' or ')' - a list marker only where 5.2 says so (the predicate decides)
        toks.insert(0, '%d%s' % (rng.choice((0, 1, 2, 9, 10, 11, 21, 41, 99, 100, 101, 1991, 2021, rng.randint(0, 99999))), rng.choice('.)')))
    line = ' '.join(toks)
    if rng.random() < 0.1:
        line += ' '
    if k > 0 and rng.random() < 0.15:
        # continuation line indented by four or more columns, spelled with spaces and tabs: whatever it starts with is paragraph text
        if rng.random() < 0.6:
            line = rng.choice(BLOCKISH) + (' ' + line if rng.random() < 0.7 else '')
        return rng.choice(DEEP) + line
    indent = rng.choice((0, 0, 0, 1, 2, 3)) if k == 0 else rng.choice((0, 0, 0, 1, 2, 3, 4, 5, 8))
    return ' ' * indent + line


BLOCKISH = ['>', '> x', '>x', '- x', '+ x', '* x', '-', '# x', '## x', '#', '1. x', '1) x', '7. x', '***', '---', '___', '* * *', '===', '=', '--', '~~~', '~~~x', '| x']
DEEP = ['    ', '     ', '        ', '\t', ' \t', '  \t', '   \t', '\t ', '\t\t', '\t   ', '    \t']


def plan(tier):
    if tier == 'quick':
        return {'shards': 8, 'budget_s': 60}
    return {'shards': 16, 'budget_s': 600}


SIZES = {'quick': dict(rand=40000, exhaustive_pairs=False), 'thorough': dict(rand=1200000, exhaustive_pairs=True)}
PINNED = [['. foo'], [') bar'], ['para', ') y'], ['text', '14. more'], ['text', '2) more'], ['text', '-'], ['text', '    indented # not code'],
          ['snake_case and x_y_z'], ['2 * 3 * 4'], ['a > b', 'c < d'], ['AT&T & co &c'], ['2 * 3 * 4'], ['[ unpaired'], ['unpaired ]']]


def run(ctx):
    sz = SIZES[ctx.tier]
    rng = ctx.rng
    if ctx.shard == 0:
        for w in PINNED:
            check(ctx, w, 'pinned')
    # exhaustive: all 1-token lines, and (thorough) all 2-token lines; also each as 2nd line after 'text'
    idx = 0
    for t in VOCAB:
        idx += 1
        if idx % ctx.nshards == ctx.shard:
            check(ctx, [t], 'exhaustive-1')
            check(ctx, ['text', t], 'exhaustive-1-second-line')
            check(ctx, ['text', '     ' + t], 'exhaustive-1-second-line')
            check(ctx, ['text', '\t' + t], 'exhaustive-1-second-line')
    for b in BLOCKISH:
        for d in DEEP:
            idx += 1
            if idx % ctx.nshards == ctx.shard:
                check(ctx, ['text', d + b], 'deep-indented-blockish')
                check(ctx, ['text', d + b, 'more'], 'deep-indented-blockish')
    for under in ('=', '==', '===', ' ===', '   =', '=== ', '========'):
        for body in (['text'], ['text', 'more'], ['a = b'], ['   text']):
            idx += 1
            if idx % ctx.nshards == ctx.shard:
                check(ctx, body + [under], 'setext-off', 'str', 'setext-headings-off')
                check(ctx, body + [under, 'after'], 'setext-off', 'str', 'setext-headings-off')
    pairs = itertools.product(VOCAB, repeat=2)
    for a, b in pairs:
        idx += 1
        if idx % ctx.nshards != ctx.shard:
            continue
        if not sz['exhaustive_pairs'] and idx % 7:
            continue
        check(ctx, [a + ' ' + b], 'exhaustive-2')
        check(ctx, ['text', a + ' ' + b], 'exhaustive-2-second-line')
    if sz['exhaustive_pairs']:
        ctx.note('all %d two-token lines enumerated (as a first and as a second line)' % (len(VOCAB) ** 2))
    for k in range(sz['rand'] // ctx.nshards):
        if ctx.out_of_time():
            break
        lines = [make_line(rng, i) for i in range(rng.choice((1, 1, 2, 2, 3, 4)))]
        check(ctx, lines, 'random', rng.choice(FORMS) if rng.random() < 0.4 else 'str', rng.choice(PRIOR) if rng.random() < 0.1 else 'none')
        if k < 3:
            ctx.sample({'lines': lines})


def finalize(m, tier):
    inconclusive = []
    if m.evaluations < 5000:
        inconclusive.append('only %d inert paragraphs reached the parser' % m.evaluations)
    return {
        'distinct_nontrivial': m.n('nontrivial'),
        'rule': 'paragraphs of 1-4 lines assembled from a %d-token vocabulary of tricky-but-inert tokens (all single tokens, a 1/7 sample '
                '(quick) or all (thorough) token pairs, random longer lines with 0-3 / 0-8 spaces of indentation); only paragraphs '
                'accepted by the independent inertness predicate are evaluated; distinct_nontrivial = distinct accepted paragraphs' % len(VOCAB),
        'inconclusive': inconclusive,
        'extra': {'input_forms': m.c('input_form'), 'prior_uses': m.c('prior_use'), 'rejected_by_predicate': m.c('rejected_by_predicate'), 'token_position_coverage': m.c('token_position'),
                  'vocabulary_size': len(VOCAB)},
    }


def replay(ctx, case):
    check(ctx, case['lines'], case.get('source', 'replay'), case.get('form', 'str'), case.get('prior', 'none'))


import os as _os  # noqa: E402
if _os.environ.get('VERIF_NO_PINNED'):
    PINNED = []
