"""C05 - blocks separated by a blank line are parsed independently (relational monitor over three real parses)."""
from .. import mt, tree, workloads

ID = 'C05'
LEVEL = 'exploration'
ASSUMPTIONS = [
    'side conditions taken conservatively: A\'s last block is a Paragraph/Heading/SetextHeading/ThematicBreak/Quote/Table token, '
    'A\'s last line is non-blank, both footnote tables are empty and neither text contains the sequence "]:"',
    'before each of the three parses a neutral document is parsed (scrub) so that residue of earlier cases cannot mask a leak',
]

CLOSED = ('Paragraph', 'Heading', 'SetextHeading', 'ThematicBreak', 'Quote', 'Table')
TOKEN_SETS = [None, 'Html']

# B documents whose first block consumes class-level scratch state that A may have written
SCRATCH_B = ['#\n', '##\n', '######\n', '# t #\n', '# #\n', '## ##\n', '### #  \n', '# # #\n', '> ## ##\n', '- # #\n', '```\ncode\n```\n', '``` info\ncode\n```\n', '~~~\ncode\n', '<x-note>\nfoo\n\nbar\n',
             '<div>\nfoo\n\nbar\n', '<!-- c\n\n-->\nz\n', '<pre>\n\nx\n</pre>\n', '<?p\n\n?>\n', 'Title\n=====\n', 'Title\n-----\n', '---\n',
             'a | b\n--|--\nc | d\n', '> q\n', '- i\n', '1. i\n', '    code\n', 'para\n', '> Title\n> ===\n', '- Title\n  ---\n',
             '> a | b\n> --|--\n> c | d\n> e | f\n', '- x\n\n  a | b\n  --|--\n  c | d\n', '> q\n>\n> - i\n>   > # h\n>   >\n>   > p\n', '-\n  foo\n\n  bar\n',
             '1. a\n\n   ```\n   c\n   ```\n2. b\n   - c\n\n     d\n', '>\n> late\n>\n>     code\n', '\n\nlate start\n\n# h\n']
SCRATCH_A = ['# one #\n', '###### six ######\n', '## two ##\n', 'Setext\n===\n', '<!-- comment -->\n\npara\n', '<pre>x</pre>\n\npara\n', '<?pi?>\n\npara\n',
             '<!DOCTYPE x>\n\npara\n', '<![CDATA[x]]>\n\npara\n', '``` py\ncode\n```\n\npara\n', '~~~~ info\nx\n~~~~\n\n---\n', '> quote\n', '>\n', '> > deep\n',
             'a | b\n--|--\n', 'a | b\n:-:|--:\nc | d\n', '***\n', 'para\nmore\n', '- a\n\npara\n', '> ```\n> x\n\npara\n', '> # h #\n']
# lists whose looseness is settled by List.read / ListItem.read through the items' parse buffers: empty items, blank lines between
# and after items, nested lists - on both sides of the boundary
LIST_SHAPES = ['-\n\n- b\n', '- a\n-\n\n- c\n', '- a\n\n- b\n', '1.\n\n2. b\n', '- a\n-\n', '- x\n-\n\nend\n', '-\n', '- a\n- b\n', '- a\n  - b\n\n  c\n',
               '1. a\n2.\n\n3. c\n', '- a\n\n  b\n- c\n', '- a\n  - b\n\n- c\n', '*\n*\n\n* c\n', '- a\n\n\n- b\n', '> -\n>\n> - b\n', '- > a\n-\n\n- c\n']
SCRATCH_B = SCRATCH_B + LIST_SHAPES
# a second document that begins with U+FEFF (a byte order mark read as text) or another invisible character: no special treatment
# "at the start of a document", because B does not start the combined document
SCRATCH_B = SCRATCH_B + ['\ufeff# Title\n', '\ufeff> q\n', '\ufeff- i\n', '\ufeff    code\n', '\ufeffpara\n', '\u200b# Title\n', '\u2060- i\n']
# A's last block is decided by looking ahead from a paragraph line: the look-ahead must see the same thing whether the input ends
# after A or goes on (a table of header and delimiter row only, a setext underline, a table behind a quoted or listed paragraph)
LOOKAHEAD_A = ['text\n| a |\n|---|\n', 'text\n| a | b |\n|---|:-:|\n', 'text\na | b\n--|--\n', '> text\n| a |\n|---|\n', '> text\n> | a |\n> |---|\n',
               'text\n| a |\n|---|\n| 1 |\n', 'one\ntwo\n| a |\n|---|\n', 'text\n| a |\n|---|  \n', '# h\ntext\n| a |\n| - |\n', 'text\n===\n', 'text\nmore\n---\n',
               '> text\n> ===\n', 'text\n| a |\n', 'text\n|---|\n', '- item\n\ntext\n| a |\n|---|\n', 'text\n***\n', 'text\n# h\n', 'text\n> q\n']
# A's last line ends in white space that is kept somewhere in the tree (the text of a thematic break, code in a quote): what the
# parser does with the end of its *input* must not differ from what it does with the end of a *line*
TRAILING_WS_A = ['***  \n', '- - - - \n', 'text\n\n- - -\t\n', '> ```\n> code  \n', '> ```\n> code\t\n', '>     code  \n', '> ***  \n', '> > ~~~\n> > x \n', '# h  \n', 'text  \n',
                 'text\\\n', '> a  \n', 'a | b\n--|--\nc | d  \n', '_ _ _ \n', '>  \n', '> ```\n>  \n']
SCRATCH_A = SCRATCH_A + LOOKAHEAD_A + TRAILING_WS_A + [l + '\npara\n' for l in LIST_SHAPES] + ['> ' + l.replace('\n', '\n> ')[:-2] for l in LIST_SHAPES[:6]]


SAME_LINES = [('a | b\n', 'a | b\n--- | ---\n1 | 2\n'), ('| a |\n', '| a |\n|---|\n'), ('text\n', 'text\n===\n'), ('text\n', 'text\n---\n'), ('[r]: /u\n', '[r]: /u\n"t"\n\n[r]\n'),
              ('[r]\n', '[r]\n: x\n'), ('```\n', '```\ncode\n```\n'), ('<div>\n', '<div>\nx\n</div>\n'), ('- a\n', '- a\n- b\n\n- c\n'), ('a\n', 'a\n| x |\n|---|\n'),
              ('# h #\n', '# h #\ntext\n'), ('    code\n', '    code\n\n    more\n'), ('x | y\n', 'x | y\n:-: | -\n')]


def parse(text, ts):
    return mt.parse(text, ts, scrub_first=True)


SEPARATORS = ['\n', '\n', '\n', '  \n', '\t\n', ' \t \n', '    \n', '        \n']       # a blank line may consist of spaces and tabs


def check(ctx, a, b, ts, source, sep=None):
    ctx.ev()
    sep = sep or SEPARATORS[ctx.case_index % len(SEPARATORS)]
    if not a.endswith('\n'):
        a += '\n'
    case = {'a': a, 'b': b, 'token_set': ts, 'source': source, 'sep': sep}
    if ']:' in a or ']:' in b:
        ctx.count('skipped_by_filter', 'text contains "]:"')
        return
    if a.rstrip('\n') == '' or a.split('\n')[-2].strip() == '':
        ctx.count('skipped_by_filter', 'A ends in a blank line')
        return
    try:
        da = parse(a, ts)
        if not da.children or type(da.children[-1]).__name__ not in CLOSED:
            ctx.count('skipped_by_filter', 'A does not end in a closed block')
            return
        db = parse(b, ts)
        if da.footnotes or db.footnotes:
            ctx.count('skipped_by_filter', 'defines link references')
            return
        dc = parse(a + sep + b, ts)
    except Exception as e:  # noqa
        ctx.count('ambient', 'C01:' + mt.exc_site(e))
        return
    nlines = a.count('\n')
    want = [tree.canon(c, lines=True) for c in da.children] + [tree.canon(c, lines=True, shift=nlines + 1) for c in db.children]
    got = [tree.canon(c, lines=True) for c in dc.children]
    la = type(da.children[-1]).__name__
    fb = type(db.children[0]).__name__ if db.children else '(none)'
    ctx.count('boundary', '%s | %s' % (la, fb))
    if dc.footnotes:
        ctx.violation('definitions-appear', '%s|%s' % (la, fb), case)
        return
    if got != want:
        ctx.violation('blocks-differ', '%s | %s: %s' % (la, fb, tree.diff_kind(want, got)), case,
                      first_difference=tree.first_diff(want, got))
        return
    ctx.count('held', 'pairs')
    if db.children:
        ctx.seen('nontrivial', [a, b, ts])


def plan(tier):
    if tier == 'quick':
        return {'shards': 8, 'budget_s': 60}
    return {'shards': 16, 'budget_s': 600}


SIZES = {'quick': dict(pairs=26000), 'thorough': dict(pairs=1000000)}


def source_text(rng, gen):
    r = rng.random()
    if r < 0.35:
        return 'spec', rng.choice(workloads.spec())['markdown']
    if r < 0.50 and gen is not None:
        return 'generated', gen.generate(rng, profile='full', max_blocks=4, empty_last_item=True, para_after_closed_container=True).text  # (no tree oracle here)
    kind, text = workloads.mixed(rng, 120)
    return kind, workloads.clean_lf(text)


def run(ctx):
    sz = SIZES[ctx.tier]
    rng = ctx.rng
    try:
        from .. import gen
    except ImportError:
        gen = None
    # systematic: every scratch-writing A x every scratch-consuming B x both token sets
    k = 0
    for a in SCRATCH_A:
        for b in SCRATCH_B:
            for ts in TOKEN_SETS:
                k += 1
                if k % ctx.nshards == ctx.shard:
                    check(ctx, a, b, ts, 'scratch-matrix')
                    if k % 5 == 0 and '\n' in b[:-1]:
                        # the second half may use another line-ending convention than the first (CR LF, CR): each line is
                        # converted on its own, whatever the document's first line looked like
                        check(ctx, a, b.replace('\n', '\r\n'), ts, 'scratch-matrix-crlf', sep='\n')
                        check(ctx, a, b.replace('\n', '\r'), ts, 'scratch-matrix-cr', sep='\n')
    # B begins with the very line(s) that A consists of: what a reader concluded about a line in A (not a table header, not a
    # setext heading's text, not a definition) must not be remembered for the same text in B, where the following line differs
    k = 0
    for a, b in SAME_LINES:
        for wrap_ in ('%s', '> %s', '- %s'):
            for ts in TOKEN_SETS:
                k += 1
                if k % ctx.nshards == ctx.shard:
                    wa = ''.join((wrap_ % ln if i == 0 or wrap_ != '- %s' else '  ' + ln) + '\n' for i, ln in enumerate(a.split('\n')[:-1]))
                    wb = ''.join((wrap_ % ln if i == 0 or wrap_ != '- %s' else '  ' + ln) + '\n' for i, ln in enumerate(b.split('\n')[:-1]))
                    check(ctx, wa, wb, ts, 'same-first-line')
                    check(ctx, a, wb, ts, 'same-first-line')
    for k in range(sz['pairs'] // ctx.nshards):
        if ctx.out_of_time():
            break
        ka, a = source_text(rng, gen)
        r = rng.random()
        if r < 0.25:
            kb, b = 'scratch', rng.choice(SCRATCH_B)
        else:
            kb, b = source_text(rng, gen)
        if rng.random() < 0.2:
            a = rng.choice(SCRATCH_A)
            ka = 'scratch'
        if rng.random() < 0.08 and b.count('\n') > 1:
            a, ka = ''.join(ln + '\n' for ln in b.split('\n')[:rng.randint(1, 2)]), 'prefix-of-b'
        if rng.random() < 0.03:
            b, kb = rng.choice('\ufeff\u200b\u2060') + b, kb + '-bom'
        check(ctx, a, b, rng.choice(TOKEN_SETS), ka + '+' + kb)
        if k < 2:
            ctx.sample({'a': a, 'b': b})


def finalize(m, tier):
    inconclusive = []
    held = m.c('held').get('pairs', 0)
    if held < 2000:
        inconclusive.append('only %d eligible pairs were compared' % held)
    return {
        'distinct_nontrivial': m.n('nontrivial'),
        'rule': 'pairs (A, B) from spec examples, mutations, generated documents, random strings and a systematic matrix of '
                'scratch-writing A x scratch-consuming B; Document(A), Document(B), Document(A+"\\n"+B) are parsed by the real code '
                '(default and Html token sets) and compared as canonical trees with line numbers (B shifted by lines(A)+1). '
                'distinct_nontrivial = distinct eligible (A, B, token set) triples in which B has at least one block',
        'inconclusive': inconclusive,
        'extra': {'eligible_pairs_compared': held, 'boundary_matrix_cells': len(m.c('boundary')),
                  'boundary_matrix': m.c('boundary'), 'skipped_by_filter': m.c('skipped_by_filter'), 'ambient_alerts': m.c('ambient')},
    }


def replay(ctx, case):
    check(ctx, case['a'], case['b'], case.get('token_set'), case.get('source', 'replay'), case.get('sep'))
