"""C06 - emphasis nesting equals the CommonMark delimiter-run algorithm (reference-model monitor)."""
import itertools
import re

from .. import emphasis_model as em
from .. import emphasis_link_model as lm
from .. import mt, workloads

ID = 'C06'
LEVEL = 'exploration'
ASSUMPTIONS = [
    'rtmon.emphasis_model is a faithful transcription of the CommonMark 0.30 delimiter algorithm; it is re-validated against '
    'every in-alphabet example of the spec section "Emphasis and strong emphasis" in each run (a disagreement there makes the '
    'run inconclusive)',
    'the inline text is embedded as ATX heading content ("# " + text), whose stripping of surrounding spaces is mirrored',
    'characters with another inline meaning (` < & \\ ~) and code points whose whitespace class differs between spec and '
    'str.strip are outside the domain; brackets are covered by a second family: strings over the tokens {a, space, *, **, _, [, ![, !, ], ](u)} '
    'are compared with rtmon.emphasis_link_model, the spec\'s "look for link or image" procedure with the one inline link tail "(u)" '
    '(no reference definitions: other bracket forms stay literal)',
]

ALPHA = 'a *_.'
WIDE = list('ab1') + list('.,;:?\'"()-+=/') + list('«»–…¡') + ['é', '中', ' ', ' ', '　'] + [' '] * 6 + ['*'] * 9 + ['_'] * 7 \
    + ['€', '©', '×', '°', '→', '\U0001F600',       # Unicode symbols (Sc, So, Sm): neither punctuation nor whitespace in 0.30
       '\U00011047', '\U00010100', '\u2e3a',         # punctuation outside the BMP / in rarely visited blocks (Po, Pd)
       '\u2003', '\u1680', '\u205f']                # further Zs spaces


def expected_heading(t):
    inner, stats = em.render(t.strip())
    return '<h1>%s</h1>\n' % inner, stats


def check_text(ctx, t, source):
    ctx.ev()
    case = {'text': t, 'source': source}
    exp, stats = expected_heading(t)
    try:
        got = mt.html('# ' + t + '\n')
    except Exception as e:  # noqa
        ctx.violation('parser-fails', mt.exc_site(e), case, traceback=mt.tb_text(e))
        return
    if stats['matches']:
        ctx.count('nontrivial', source)
        if source == 'random':
            ctx.seen('nontrivial-random', t)
    if stats['rule_of_three']:
        ctx.count('model', 'rule-of-three engaged')
    if stats['bottom_hits']:
        ctx.count('model', 'openers_bottom cut a search')
    if stats['partial']:
        ctx.count('model', 'partial run consumption')
    if got != exp:
        ctx.violation('structure-differs', signature(t), case, expected=exp, observed=got)


LINK_TOKENS = ['a', ' ', '*', '_', '[', ']', '](u)', '![', '**', '!']


def check_link_text(ctx, t, source):
    ctx.ev()
    t = t.strip()
    case = {'text': t, 'source': source, 'family': 'links'}
    inner, stats = lm.render(t)
    exp = '<h1>%s</h1>\n' % inner
    try:
        got = mt.html('# ' + t + '\n')
    except Exception as e:  # noqa
        ctx.violation('parser-fails', mt.exc_site(e), case, traceback=mt.tb_text(e))
        return
    if stats['links'] or stats['images']:
        ctx.count('nontrivial', source)
        if stats['matches']:
            ctx.count('model', 'emphasis together with a link or image')
    if stats['inactive_hits']:
        ctx.count('model', 'closing bracket met an inactive opener')
    if got != exp:
        ctx.violation('structure-differs', 'links: ' + link_signature(t), case, expected=exp, observed=got)


def link_signature(t):
    out = []
    for x in lm.scan(t):
        if isinstance(x, em.Delim):
            out.append('%s%d' % (x.ch, min(x.num, 3)))
        elif isinstance(x, lm.Bracket):
            out.append(x.text)
        elif isinstance(x, tuple):
            out.append('](u)' if x[1] else ']')
    return ' '.join(out[:10])


def signature(t):
    """Mechanism signature of a disagreement: the shape of the delimiter runs
    (characters, lengths mod 3 classes, flanking) rather than the text."""
    runs = []
    for x in em.scan(t.strip()):
        if isinstance(x, em.Delim):
            runs.append('%s%d%s%s' % (x.ch, min(x.num, 4), 'o' if x.can_open else '', 'c' if x.can_close else ''))
    return ' '.join(runs[:8])


def validate_model(ctx):
    """The model against the normative examples it can read."""
    ok = bad = 0
    for ex in workloads.spec():
        if ex['section'] != 'Emphasis and strong emphasis':
            continue
        md = ex['markdown']
        if re.search(r'[`\[\]<>&\\!~]', md) or md.count('\n') != 1:
            continue
        t = md.rstrip('\n')
        if t.startswith(('* ', '- ', '+ ', '#', '>', '    ')) or re.match(r'^([*_-] *){3,}$', t):
            continue
        got = '<p>%s</p>\n' % em.render(t)[0].replace('"', '&quot;')
        if got == ex['html']:
            ok += 1
        else:
            bad += 1
            ctx.note('MODEL DISAGREES WITH SPEC example %d: %r' % (ex['example'], md))
    ctx.count('model-validation', 'spec examples reproduced', ok)
    ctx.count('model-validation', 'spec examples NOT reproduced', bad)
    # the link-aware model against the examples of "Links", "Images" and "Emphasis" that use nothing but simple inline link tails
    ok = bad = 0
    for ex in workloads.spec():
        if ex['section'] not in ('Links', 'Images', 'Emphasis and strong emphasis') or ex['markdown'].count('\n') != 1:
            continue
        t = re.sub(r'\((/ur[il]|uri|/foo|foo)\)', '(u)', ex['markdown'].rstrip('\n'))
        rest = t.replace('](u)', '')
        if re.search(r'[`<>&\\~"\'#:()]', rest) or t.startswith(('* ', '- ', '+ ', '    ')) or re.match(r'^([*_-] *){3,}$', t):
            continue
        want = re.sub(r'(href|src)="(/ur[il]|uri|/foo|foo)"', r'\1="u"', ex['html'])
        want = re.sub(r'\((/ur[il]|uri|/foo|foo)\)', '(u)', want)
        if '<p>%s</p>\n' % lm.render(t)[0] == want:
            ok += 1
        else:
            bad += 1
            ctx.note('LINK MODEL DISAGREES WITH SPEC example %d: %r' % (ex['example'], ex['markdown']))
    ctx.count('model-validation', 'link-model spec examples reproduced', ok)
    ctx.count('model-validation', 'spec examples NOT reproduced', bad)


def plan(tier):
    if tier == 'quick':
        return {'shards': 8, 'budget_s': 60}
    return {'shards': 16, 'budget_s': 900}


SIZES = {'quick': dict(n5=8, n2=14, n3=10, rand=80000, nlink=5, randlink=20000), 'thorough': dict(n5=10, n2=14, n3=13, rand=2000000, nlink=7, randlink=600000)}


def run(ctx):
    sz = SIZES[ctx.tier]
    if ctx.shard == 0:
        validate_model(ctx)
        for w in PINNED:
            check_text(ctx, w, 'pinned')
    idx = 0
    for n in range(0, sz['n5'] + 1):
        for tup in itertools.product(ALPHA, repeat=n):
            idx += 1
            if idx % ctx.nshards != ctx.shard:
                continue
            check_text(ctx, ''.join(tup), 'enum5<=%d' % sz['n5'])
    for alpha in ('a*', 'a_'):
        for n in range(0, sz['n2'] + 1):
            for tup in itertools.product(alpha, repeat=n):
                idx += 1
                if idx % ctx.nshards != ctx.shard:
                    continue
                check_text(ctx, ''.join(tup), 'enum2(%s)<=%d' % (alpha, sz['n2']))
    # both delimiter characters, no spaces or punctuation: long mixed runs and deep nesting
    for n in range(0, sz['n3'] + 1):
        for tup in itertools.product('a*_', repeat=n):
            idx += 1
            if idx % ctx.nshards != ctx.shard:
                continue
            check_text(ctx, ''.join(tup), 'enum3(a*_)<=%d' % sz['n3'])
    # emphasis together with links and images
    for n in range(0, sz['nlink'] + 1):
        for tup in itertools.product(LINK_TOKENS, repeat=n):
            idx += 1
            if idx % ctx.nshards != ctx.shard:
                continue
            check_link_text(ctx, ''.join(tup), 'enum-links<=%d' % sz['nlink'])
    rng = ctx.rng
    for k in range(sz['randlink'] // ctx.nshards):
        if ctx.out_of_time():
            break
        check_link_text(ctx, ''.join(rng.choice(LINK_TOKENS) for _ in range(rng.randint(6, 16))), 'random-links')
    for k in range(sz['rand'] // ctx.nshards):
        if ctx.out_of_time():
            break
        n = rng.randint(1, 40)
        chars = [rng.choice(WIDE) for _ in range(n)]
        # heading content is stripped with str.strip: keep non-ASCII spaces away from the ends
        t = ''.join(chars)
        t = t.strip() if rng.random() < 0.7 else t.strip('  　')
        check_text(ctx, t, 'random')
        if k < 3:
            ctx.sample({'text': t, 'expected': expected_heading(t)[0]})
    ctx.sample({'text': '*a **b* c**', 'expected': expected_heading('*a **b* c**')[0]})


PINNED = ['**a****b*', '**_*_*', '*_**_*', '*_**.*', '_*__*_', '_*__._', '__*_*_', '***a*****b**', '*a**b***c*', 'a**b*c**d*']


def finalize(m, tier):
    sz = SIZES[tier]
    inconclusive = []
    mv = m.c('model-validation')
    if mv.get('spec examples NOT reproduced', 0):
        inconclusive.append('the reference model disagrees with %d spec example(s); see notes' % mv['spec examples NOT reproduced'])
    if mv.get('link-model spec examples reproduced', 0) < 90:
        inconclusive.append('link-model validation covered only %d spec examples' % mv.get('link-model spec examples reproduced', 0))
    if mv.get('spec examples reproduced', 0) < 90:
        inconclusive.append('model validation covered only %d spec examples' % mv.get('spec examples reproduced', 0))
    space5 = sum(5 ** n for n in range(sz['n5'] + 1))
    space2 = 2 * sum(2 ** n for n in range(sz['n2'] + 1)) + sum(3 ** n for n in range(sz['n3'] + 1))
    nontriv = sum(v for k, v in m.c('nontrivial').items() if k != 'random') + m.n('nontrivial-random')
    return {
        'distinct_nontrivial': nontriv,
        'rule': 'exhaustive: every string over {a, space, *, _, .} up to length %d (%d strings) and over {a,*} and {a,_} up to '
                'length %d and {a,*,_} up to 10/13 (%d strings), each distinct by construction; plus random strings up to length 40 over letters, digits, '
                'inert ASCII punctuation, Unicode punctuation and Zs spaces. Each is rendered as heading content by the real parser '
                'and compared with the reference delimiter algorithm. non-trivial = the reference algorithm forms at least one '
                '<em>/<strong> (enumerated strings are distinct by construction; random ones are de-duplicated by hash). Second family: every '
                'string of up to %d tokens from {a, space, *, **, _, [, ![, !, ], ](u)} and random ones of 6-16 tokens, compared with the '
                'link-aware model (non-trivial there = at least one link or image is formed)'
                % (sz['n5'], space5, sz['n2'], space2, sz['nlink']),
        'exhaustive': True,
        'inconclusive': inconclusive,
        'extra': {'enumerated_space': {'alphabet5': space5, 'alphabet2x2': space2}, 'model_validation': mv,
                  'model_events': m.c('model')},
    }


def replay(ctx, case):
    if case.get('family') == 'links':
        check_link_text(ctx, case['text'], case.get('source', 'replay'))
    else:
        check_text(ctx, case['text'], case.get('source', 'replay'))


import os as _os  # noqa: E402
if _os.environ.get('VERIF_NO_PINNED'):
    PINNED = []
