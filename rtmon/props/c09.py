"""C09 - Markdown round trip: same meaning, idempotent, exact on normal form (relational monitor)."""
import random

from .. import gen, mt, workloads
from ..core import open_findings

ID = 'C09'
LEVEL = 'exploration'
ASSUMPTIONS = [
    '"same document" = identical HtmlRenderer output and identical link-definition table (same renderer on both sides: exact equality)',
    'generated domain (profile "roundtrip" of rtmon/gen.py) leaves out the property\'s excluded classes (character references, backslash '
    'escapes in destinations/titles, continuation lines indented >= 4) and the shapes of the listed known findings (escaped pipes in table '
    'cells, empty list items followed by blank lines); on the spec corpus those cases are listed individually by example number',
    'normal form (profile "normalform") = the spelling discipline the renderer itself produces: no block indentation, "> " quote prefix '
    '(also on blank lines), continuation at the content offset, fences closed by the identical fence, single-line definitions, tables '
    'padded to the column width (min 3) with ":" markers, no empty / blank-start list items',
]


def md(x, **o):
    return mt.render(x, 'Markdown', **o)


def meaning(x):
    doc_html = mt.html(x)
    fn = dict(mt.parse(x, 'Html').footnotes)
    return doc_html, fn


def roundtrip(ctx, x, nw, case, normalform=False):
    """Returns list of (clause, detail) for the broken clauses."""
    ctx.ev()
    out = []
    try:
        m1 = md(x, normalize_whitespace=nw)
        m2 = md(m1, normalize_whitespace=nw)
        hx, fx = meaning(x)
        h1, f1 = meaning(m1)
    except Exception as e:  # noqa
        ctx.count('ambient', 'C01:' + mt.exc_site(e))
        return None
    if h1 != hx:
        out.append(('meaning-changed', dict(text=x, rendered_markdown=m1, html_before=hx, html_after=h1)))
    elif f1 != fx:
        out.append(('definitions-changed', dict(text=x, rendered_markdown=m1, before=repr(fx), after=repr(f1))))
    if m2 != m1:
        out.append(('not-idempotent', dict(text=x, first=m1, second=m2)))
    if normalform and not nw and m1 != x:
        out.append(('normal-form-not-reproduced', dict(text=x, rendered_markdown=m1, first_difference=first_diff(x, m1))))
    return out


def same_tree_twice(ctx, x, case):
    """One parsed tree rendered by a MarkdownRenderer with normalize_whitespace=True and then by a default one: the second
    rendering is the rendering of a fresh parse (rendering reads the spelling kept on the tokens, it does not rewrite it)."""
    from mistletoe import Document
    from mistletoe.markdown_renderer import MarkdownRenderer
    ctx.ev()
    try:
        want = md(x)
        try:
            with MarkdownRenderer(normalize_whitespace=True) as r1:
                doc = Document(x)
                r1.render(doc)
            with MarkdownRenderer() as r2:
                got = r2.render(doc)
        finally:
            mt.reset()
    except Exception as e:  # noqa
        ctx.count('ambient', 'C01:' + mt.exc_site(e))
        return
    if got != want:
        ctx.violation('rendering-rewrites-the-tree', 'default rendering after a normalize_whitespace rendering of the same tree', case,
                      text=x, fresh=want, after_other_rendering=got, first_difference=first_diff(want, got))
    else:
        ctx.count('held', 'same tree, second renderer')


def first_diff(a, b):
    la, lb = a.split('\n'), b.split('\n')
    for i, (p, q) in enumerate(zip(la, lb)):
        if p != q:
            return 'line %d: %r -> %r' % (i + 1, p, q)
    return 'line count %d -> %d' % (len(la), len(lb))


def check_spec(ctx, ex, nw):
    case = {'kind': 'spec', 'example': ex['example'], 'normalize_whitespace': nw}
    res = roundtrip(ctx, ex['markdown'], nw, case)
    if res is None:
        return
    if not res:
        ctx.count('spec', 'held nw=%s' % nw)
    for clause, detail in res:
        ctx.violation(clause, 'spec example %d (%s) nw=%s' % (ex['example'], ex['section'], nw), case, **detail)


def check_generated(ctx, seed, profile, nw):
    rng = random.Random(seed)
    try:
        doc = gen.generate(rng, profile=profile)
    except AssertionError:
        ctx.count('generator', 'rejected by own safety rules')
        return None
    case = {'kind': 'generated', 'seed': seed, 'profile': profile, 'normalize_whitespace': nw}
    res = roundtrip(ctx, doc.text, nw, case, normalform=(profile == 'normalform'))
    if nw and seed % 3 == 0:
        same_tree_twice(ctx, doc.text, dict(case, kind='generated-same-tree'))
    if res is None:
        return doc
    if not res:
        ctx.count('held', '%s nw=%s' % (profile, nw))
        if len(doc.kinds) > 1:
            ctx.seen('nontrivial', [doc.text, nw])
        for k, v in doc.kinds.items():
            ctx.counters['constructs'][k.split('>')[-1]] += v
    for clause, detail in res:
        ctx.violation(clause, '%s: %s' % (profile, ' '.join(sorted({k.split('>')[-1] for k in doc.kinds}))[:120]), case, **detail)
    return doc


# ---- known findings: listed per spec example (key_kind input) -------------------------------------

def classify(clause, key, case, detail):
    if case.get('kind') != 'spec':
        return None
    for f in open_findings(ID):
        for item in f.get('inputs', []):
            if item['example'] == case['example'] and clause in item['clauses'] and case['normalize_whitespace'] in item['normalize_whitespace']:
                return f['id']
    return None


def pinned_witness(finding):
    class P:
        def __init__(self):
            self.counters = {}
            self.n = 0

        def ev(self, n=1):
            pass

        def count(self, *a, **k):
            pass
    w = finding.get('pinned_witness')
    if not w:
        return True
    res = roundtrip(P(), w['text'], w.get('normalize_whitespace', False), {})
    return bool(res)


def plan(tier):
    if tier == 'quick':
        return {'shards': 8, 'budget_s': 120}
    return {'shards': 16, 'budget_s': 1200}


SIZES = {'quick': dict(docs=3200), 'thorough': dict(docs=60000)}
PINNED = ['```\n```\n', '~~~\n\n~~~\n', '    a\n      \n    b\n', '```\n  \n```\n', '- ```\n    \n  ```\n', '> ```\nfoo\n```\n', '#\n', '## ##\n',
          '| a |\n|---|\n', '[a]: </x y> (t)\n\n[a]\n', '1. a\n\n   b\n2. c\n', '> a\nlazy\n', 'a  \nb\\\nc\n', '* * *\n\n_ _ _\n']


# lines that look like a setext underline but are content: lazy continuation lines and lines indented four or more columns, in
# paragraphs and in the content of setext headings (written back at the content offset they would end the block there)
UNDERLINE_LIKE = ['> foo\n===\n> ---\n', '- foo\n===\n  ---\n', 'Foo\n    ---\n', '> foo\nbar\n===\n', 'a\n    ===\nb\n---\n', 'a\n    ---\nb\n===\n',
                  '> a\n---\n> ===\n', '1. x\n===\n   y\n   ===\n', '> > q\n===\n> > ---\n', '- a\n      -\n  b\n  -\n',
                  # ... and a thematic break that starts an item after the marker's own line: joined to the marker it is one break
                  '-\n  - - -\n', '*\n  ***\n\n  x\n', '- a\n-\n  ---\n', '-\n  -\n    - -\n', '> -\n>   -- -\n', '1. -\n     - -\n']


# blank lines made of white space other than space / tab (the readers take them for blank with str.strip(); the Markdown renderer's
# BlankLine token must agree): between every pair of leaf / container blocks, at top level and inside a quote.  Left out: a list
# BEFORE the odd line (ListItem's continuation pattern does not take such a line for blank - mechanism of the recorded finding
# C04-unicode-whitespace - so the round trip fails there on the unchanged tree) and, for the same reason, list items as the container.
ODD_BLOCKS = {'para': 'alpha beta\n', 'atx': '# head\n', 'fence': '```\ncode\n```\n', 'hr': '***\n', 'quote': '> q\n', 'list': '- a\n- b\n',
              'html': '<div>\nx\n</div>\n', 'icode': '    code\n', 'setext': 't\n===\n', 'table': '| a | b |\n| --- | --- |\n| c | d |\n',
              'def': '[r]: /u\n'}
ODD_BLANKS = ['\x0c', '\xa0', '\u2003', '\x0b', ' \xa0 ', '\x1c', '\x1d', '\x85', '\u2028', '\u3000', '\x1f\t']


def odd_blank_cases():
    for a, ta in ODD_BLOCKS.items():
        if a == 'list':
            continue
        for b, tb in ODD_BLOCKS.items():
            for o in ODD_BLANKS:
                x = ta + o + '\n' + tb
                yield (a, b, o, 'top'), x
                yield (a, b, o, 'quote'), ''.join('> ' + ln + '\n' for ln in x.split('\n')[:-1])


def run(ctx):
    sz = SIZES[ctx.tier]
    k = 0
    for i, (key, x) in enumerate(odd_blank_cases()):
        if i % ctx.nshards == ctx.shard:
            res = roundtrip(ctx, x, False, {})
            if res == []:
                ctx.count('held', 'odd-blank-separator')
            for clause, detail in (res or []):
                ctx.violation(clause, 'blank line of odd white space between %s and %s (%s)' % (key[0], key[1], key[3]),
                              {'kind': 'odd-blank', 'index': i}, **detail)
    for i, w in enumerate(UNDERLINE_LIKE):
        if i % ctx.nshards == ctx.shard:
            for nw in (False, True):
                for clause, detail in (roundtrip(ctx, w, nw, {}) or []):
                    ctx.violation(clause, 'underline-like content line: %r' % w[:24], {'kind': 'underline-like', 'index': i, 'normalize_whitespace': nw}, **detail)
    for ex in workloads.spec():
        for nw in (False, True):
            k += 1
            if k % ctx.nshards == ctx.shard:
                check_spec(ctx, ex, nw)
    for i, w in enumerate(PINNED):
        if i % ctx.nshards == ctx.shard:
            for nw in (False, True):
                res = roundtrip(ctx, w, nw, {})
                for clause, detail in (res or []):
                    ctx.violation(clause, 'pinned: %r' % w[:24], {'kind': 'pinned', 'index': i, 'normalize_whitespace': nw}, **detail)
    base = ctx.seed * 1000003 + 41
    for i in range(sz['docs']):
        if i % ctx.nshards != ctx.shard:
            continue
        if ctx.out_of_time():
            break
        profile = 'normalform' if i % 3 == 0 else 'roundtrip'
        for nw in (False, True):
            doc = check_generated(ctx, base + i, profile, nw)
        if doc is not None and len(ctx.samples) < 2 and len(doc.text) < 400:
            ctx.sample({'seed': base + i, 'profile': profile, 'markdown': doc.text})


def finalize(m, tier):
    inconclusive = []
    held = m.c('held')
    if sum(held.values()) < 2000:
        inconclusive.append('only %d generated round trips held/compared' % sum(held.values()))
    if held.get('normalform nw=False', 0) < 300:
        inconclusive.append('normal-form clause evaluated on only %d documents' % held.get('normalform nw=False', 0))
    return {
        'distinct_nontrivial': m.n('nontrivial'),
        'rule': 'every spec example and every generated document (2/3 profile "roundtrip": canonical and non-canonical spellings; 1/3 profile '
                '"normalform") is rendered to Markdown twice, for normalize_whitespace False and True; clauses: HTML and definition table '
                'unchanged, second rendering byte-identical, normal-form input reproduced byte for byte. distinct_nontrivial = distinct '
                '(document, normalize_whitespace) pairs with at least two different container paths for which all clauses held',
        'inconclusive': inconclusive,
        'extra': {'generated_round_trips_held': held, 'spec_examples_held': m.c('spec'), 'constructs_round_tripped': m.c('constructs'),
                  'generator': m.c('generator'), 'ambient_alerts': m.c('ambient')},
    }


def replay(ctx, case):
    if case['kind'] == 'spec':
        ex = next(e for e in workloads.spec() if e['example'] == case['example'])
        check_spec(ctx, ex, case['normalize_whitespace'])
    elif case['kind'] == 'generated':
        check_generated(ctx, case['seed'], case['profile'], case['normalize_whitespace'])
    elif case['kind'] == 'generated-same-tree':
        same_tree_twice(ctx, gen.generate(random.Random(case['seed']), profile=case['profile']).text, case)
    elif case['kind'] == 'odd-blank':
        key, x = list(odd_blank_cases())[case['index']]
        for clause, detail in (roundtrip(ctx, x, False, {}) or []):
            ctx.violation(clause, 'blank line of odd white space between %s and %s (%s)' % (key[0], key[1], key[3]), case, **detail)
    elif case['kind'] == 'underline-like':
        for clause, detail in (roundtrip(ctx, UNDERLINE_LIKE[case['index']], case['normalize_whitespace'], {}) or []):
            ctx.violation(clause, 'underline-like content line', case, **detail)
    else:
        res = roundtrip(ctx, PINNED[case['index']], case['normalize_whitespace'], {})
        for clause, detail in (res or []):
            ctx.violation(clause, 'pinned', case, **detail)


import os as _os  # noqa: E402
if _os.environ.get('VERIF_NO_PINNED'):
    PINNED = []
