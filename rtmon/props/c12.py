"""C12 - token tree well-formedness (icontract invariant on Document), utils.traverse and AstRenderer faithful."""
import json

from mistletoe import block_token, span_token, token as token_mod
from mistletoe import utils as mt_utils

from .. import contracts, mt, tree, workloads

ID = 'C12'
LEVEL = 'exploration'
ASSUMPTIONS = [
    'child kinds are the ones the class docstrings state; Table.header is a row kept outside children by design (its own parent '
    'link is not demanded, its cells are checked)',
    'children may be a list or a tuple',
]

TOKEN_SETS = [None, 'Html', 'Markdown', 'LaTeX', 'XWiki20']

CONTAINER_BLOCKS = ('Document', 'Quote', 'ListItem')
LEAF_INLINE_BLOCKS = ('Paragraph', 'Heading', 'SetextHeading', 'TableCell')
ONE_RAW = ('BlockCode', 'CodeFence', 'HtmlBlock', 'InlineCode', 'AutoLink', 'EscapeSequence')
NOT_FREE_BLOCKS = ('ListItem', 'TableRow', 'TableCell', 'Document')
SPAN_CONTAINERS = ('Strong', 'Emphasis', 'Strikethrough', 'Link', 'Image')

LAST = {}


def tree_problem(doc):
    """Returns (clause, detail) for the first broken clause, or None.  Also
    fills LAST['stats'] with what was seen."""
    seen = set()
    stats = {'tokens': 0, 'edges': set(), 'classes': {}, 'tuple_children': 0, 'list_children': 0, 'headers': 0, 'max_depth': 0}
    stack = [(doc, None, 0)]
    while stack:
        tok, parent, depth = stack.pop()
        if id(tok) in seen:
            return 'shared-or-cyclic-node', '%s reached twice (under %s)' % (type(tok).__name__, type(parent).__name__)
        seen.add(id(tok))
        if len(seen) > 2_000_000:
            return 'not-finite', 'more than 2M tokens'
        name = type(tok).__name__
        stats['tokens'] += 1
        stats['classes'][name] = stats['classes'].get(name, 0) + 1
        stats['max_depth'] = max(stats['max_depth'], depth)
        if not isinstance(tok, token_mod.Token):
            return 'non-token-in-tree', '%r under %s' % (type(tok), type(parent).__name__)
        is_block = isinstance(tok, block_token.BlockToken)
        is_span = isinstance(tok, span_token.SpanToken)
        if parent is not None and parent != 'header':
            if tok.parent is not parent:
                return 'parent-link', '%s listed by %s but parent is %s' % (name, type(parent).__name__, type(tok.parent).__name__)
        kids = tok.children
        if kids is not None:
            if isinstance(kids, tuple):
                stats['tuple_children'] += 1
            elif isinstance(kids, list):
                stats['list_children'] += 1
            else:
                return 'children-type', '%s.children is %s' % (name, type(kids).__name__)
            for c in kids:
                stats['edges'].add((name, type(c).__name__))
        klist = list(kids) if kids is not None else []
        # child kinds
        if name in CONTAINER_BLOCKS:
            for c in klist:
                if not isinstance(c, block_token.BlockToken) or type(c).__name__ in NOT_FREE_BLOCKS:
                    return 'child-kind', '%s holds %s' % (name, type(c).__name__)
        elif name == 'List':
            if not klist:
                return 'child-kind', 'List without items'
            for c in klist:
                if type(c).__name__ != 'ListItem':
                    return 'child-kind', 'List holds %s' % type(c).__name__
            leader = klist[0].leader
            want = None if len(leader) == 1 and leader in '-+*' else int(leader[:-1]) if leader[:-1].isdigit() else '<bad leader %r>' % leader
            if tok.start != want or isinstance(tok.start, bool):
                return 'list-start', 'List.start=%r but first marker is %r' % (tok.start, leader)
        elif name == 'Table':
            for c in klist:
                if type(c).__name__ != 'TableRow':
                    return 'child-kind', 'Table holds %s' % type(c).__name__
            hdr = getattr(tok, 'header', None)
            if hdr is not None:
                stats['headers'] += 1
                if type(hdr).__name__ != 'TableRow':
                    return 'child-kind', 'Table.header is %s' % type(hdr).__name__
                stack.append((hdr, 'header', depth + 1))
        elif name == 'TableRow':
            for c in klist:
                if type(c).__name__ != 'TableCell':
                    return 'child-kind', 'TableRow holds %s' % type(c).__name__
        elif name in LEAF_INLINE_BLOCKS or name == 'LinkReferenceDefinitionBlock':
            if kids is None:
                return 'child-kind', '%s has no children list' % name
            for c in klist:
                if not isinstance(c, span_token.SpanToken) or isinstance(c, block_token.BlockToken):
                    return 'child-kind', 'leaf block %s holds %s' % (name, type(c).__name__)
        elif name in ONE_RAW:
            if len(klist) != 1 or type(klist[0]).__name__ != 'RawText':
                return 'child-kind', '%s must hold exactly one RawText, holds %s' % (name, [type(c).__name__ for c in klist])
        elif name in ('ThematicBreak', 'BlankLine'):
            if klist:
                return 'child-kind', '%s has children' % name
        elif is_span:
            if name in SPAN_CONTAINERS and kids is None:
                # "its children are inline (span) tokens": an empty one has an empty list, it does not turn into a leaf
                return 'child-kind', '%s has no children list' % name
            for c in klist:
                if isinstance(c, block_token.BlockToken) or not isinstance(c, span_token.SpanToken):
                    return 'span-holds-block', '%s holds %s' % (name, type(c).__name__)
        elif is_block:
            pass  # custom block token of a renderer: no documented constraint
        # scalars
        if name == 'Heading' and not (isinstance(tok.level, int) and 1 <= tok.level <= 6):
            return 'heading-level', 'Heading.level=%r' % (tok.level,)
        if name == 'SetextHeading' and tok.level not in (1, 2):
            return 'heading-level', 'SetextHeading.level=%r' % (tok.level,)
        for c in reversed(klist):
            stack.append((c, tok, depth + 1))
    LAST['stats'] = stats
    return None


def _invariant(self):
    if self.__dict__.get('_rt_walked'):
        return True
    if '_children' not in self.__dict__:
        return True          # still inside __init__ (children setter not reached yet)
    self.__dict__['_rt_walked'] = True
    LAST['problem'] = tree_problem(self)
    LAST['checked'] = LAST.get('checked', 0) + 1
    return LAST['problem'] is None


_installed = False


def install():
    global _installed
    if not _installed:
        contracts.invariant(block_token.Document, _invariant, 'C12-tree')
        _installed = True


def own_bfs(doc):
    out = [(doc, None, 0)]
    level = [(doc, c) for c in (doc.children or [])]
    depth = 0
    while level:
        depth += 1
        nxt = []
        for parent, child in level:
            out.append((child, parent, depth))
            nxt.extend((child, c) for c in (child.children or []))
        level = nxt
    return out


def check_traverse(ctx, doc, case):
    mine = own_bfs(doc)
    got = list(mt_utils.traverse(doc, include_source=True))
    a = [(id(n), id(p) if p is not None else None, d) for n, p, d in mine]
    b = [(id(r.node), id(r.parent) if r.parent is not None else None, r.depth) for r in got]
    if a != b:
        if sorted(a, key=repr) == sorted(b, key=repr):
            ctx.violation('traverse-order', 'same nodes, different order', case)
        else:
            k = next((i for i, (x, y) in enumerate(zip(a, b)) if x != y), min(len(a), len(b)))
            what = 'count %d vs %d' % (len(b), len(a)) if len(a) != len(b) else 'entry differs'
            node = mine[k][0] if k < len(mine) else None
            ctx.violation('traverse-nodes', '%s at %s' % (what, tree.class_path(node) if node is not None else 'end'), case)
        return
    ctx.count('traverse', 'include_source full walk equal')
    # without source
    if [id(r.node) for r in mt_utils.traverse(doc)] != [x[0] for x in a[1:]]:
        ctx.violation('traverse-nodes', 'include_source=False differs', case)
        return
    # klass filter and depth limit
    rng = ctx.rng
    classes = sorted({type(n) for n, _, _ in mine}, key=lambda c: c.__name__)
    klass = rng.choice(classes)
    want = [(id(n), d) for n, p, d in mine if isinstance(n, klass)]
    gotk = [(id(r.node), r.depth) for r in mt_utils.traverse(doc, klass=klass, include_source=True)]
    if want != gotk:
        ctx.violation('traverse-klass', 'klass=%s' % klass.__name__, case)
        return
    ctx.count('traverse', 'klass filter equal')
    maxd = max(d for _, _, d in mine)
    lim = rng.randint(0, maxd + 1)
    want = [(id(n), d) for n, p, d in mine if d <= lim]
    gotd = [(id(r.node), r.depth) for r in mt_utils.traverse(doc, depth=lim, include_source=True)]
    if want != gotd:
        ctx.violation('traverse-depth', 'depth limit', case, limit=lim)
        return
    ctx.count('traverse', 'depth limit equal')


def ast_mismatch(node, tok, path='Document'):
    name = type(tok).__name__
    if not isinstance(node, dict) or node.get('type') != name:
        return '%s: type %r vs %s' % (path, node.get('type') if isinstance(node, dict) else node, name)
    kids = tok.children
    if kids is None:
        if 'children' in node:
            return '%s: JSON has children, token is a leaf' % path
    else:
        jk = node.get('children')
        if not isinstance(jk, list) or len(jk) != len(kids):
            return '%s: child count %r vs %d' % (path, len(jk) if isinstance(jk, list) else jk, len(kids))
    for a in tree.BLOCK_ATTRS.get(name, tree.SPAN_ATTRS.get(name, ())):
        if a == 'content' and 'content' not in vars(tok):
            continue
        if a not in node:
            return '%s: attribute %s missing from JSON' % (path, a)
        want = json.loads(json.dumps(getattr(tok, a)))
        if node[a] != want:
            return '%s.%s: %r vs %r' % (path, a, node[a], want)
    if isinstance(tok, block_token.BlockToken) and name != 'Document':
        if node.get('line_number') != getattr(tok, 'line_number', None):
            return '%s.line_number: %r vs %r' % (path, node.get('line_number'), getattr(tok, 'line_number', None))
    if name == 'Document':
        want = json.loads(json.dumps(tok.footnotes))
        if node.get('footnotes') != want:
            return '%s.footnotes differ' % path
    if name == 'Table' and getattr(tok, 'header', None) is not None:
        if 'header' not in node:
            return '%s: header missing from JSON' % path
        m = ast_mismatch(node['header'], tok.header, path + '/header')
        if m:
            return m
    if kids is not None:
        for i, (jn, c) in enumerate(zip(node['children'], kids)):
            m = ast_mismatch(jn, c, '%s/%s' % (path, type(c).__name__))
            if m:
                return m
    return None


def check_ast(ctx, text, case):
    cls = mt.renderer_class('Ast')
    try:
        try:
            with cls() as r:
                doc = mt.Document(text)
                out = r.render(doc)
        finally:
            mt.reset()
    except contracts.ContractBroken:
        return  # reported by the tree clause under the default token set
    except Exception as e:  # noqa
        ctx.count('ambient', 'C01:' + mt.exc_site(e))
        return
    try:
        data = json.loads(out)
    except ValueError as e:
        ctx.violation('ast-invalid-json', str(e)[:60], case, observed=out[:500])
        return
    m = ast_mismatch(data, doc)
    if m:
        import re
        ctx.violation('ast-does-not-mirror-tree', re.sub(r"'[^']*'|\d+", '_', m)[:100], case, mismatch=m)
        return
    ctx.count('ast', 'mirrors tree')


def check_ast_of(ctx, doc, case):
    """The generic view of a tree that was parsed under another renderer's token set (its extra token classes included)."""
    try:
        out = mt.renderer_class('Ast')().render(doc)
    except Exception as e:  # noqa
        ctx.violation('ast-raises', '%s on a %s tree' % (mt.exc_site(e), case['token_set']), dict(case, view='ast'), traceback=mt.tb_text(e))
        return
    try:
        data = json.loads(out)
    except ValueError as e:
        ctx.violation('ast-invalid-json', str(e)[:60], dict(case, view='ast'), observed=out[:500])
        return
    m = ast_mismatch(data, doc)
    if m:
        import re
        ctx.violation('ast-does-not-mirror-tree', '%s tree: %s' % (case['token_set'], re.sub(r"'[^']*'|\d+", '_', m)[:90]), dict(case, view='ast'), mismatch=m)
        return
    ctx.count('ast', 'mirrors %s tree' % case['token_set'])


def snapshot(tok):
    """Everything a token carries (all instance attributes with plain values, the header row, the children, in order)."""
    attrs = []
    for k, v in sorted(vars(tok).items()):
        if k in ('_children', '_parent', 'children', 'parent', 'header'):
            continue
        if v is None or isinstance(v, (str, int, float, bool)) or (isinstance(v, (tuple, list)) and all(x is None or isinstance(x, (str, int, float, bool)) for x in v)):
            attrs.append((k, repr(v)))
    node = [type(tok).__name__, attrs]
    hdr = getattr(tok, 'header', None) if type(tok).__name__ == 'Table' else None
    node.append(snapshot(hdr) if hdr is not None else None)
    kids = tok.children
    node.append([snapshot(c) for c in kids] if kids is not None else None)
    return node


RENDER_OPTS = {'Html': [{}], 'Markdown': [{}, {'normalize_whitespace': True}, {'max_line_length': 20}], 'LaTeX': [{}], 'XWiki20': [{}]}


def check_render_leaves_tree(ctx, doc, ts, case):
    """Rendering is a walk over the tree, not an edit of it: after the token set's own renderer has rendered the document (every
    option set), each token carries what it carried before and lists the children it listed before - the generic views
    (traverse, AST) of a tree that has been rendered are views of the tree that was parsed."""
    from .. import tree as _tree
    before = snapshot(doc)
    cls = mt.renderer_class(ts)
    for opts in RENDER_OPTS[ts]:
        try:
            try:
                with cls(**opts) as r:
                    r.render(doc)
            finally:
                mt.reset()
        except Exception as e:  # noqa  (C01's business; the tree is compared all the same)
            ctx.count('ambient', 'C01:' + mt.exc_site(e))
        after = snapshot(doc)
        if after != before:
            import re
            where = _tree.first_diff(before, after) or 'tokens differ'
            ctx.violation('render-changes-tree', '%s%s: %s' % (ts, ' ' + json.dumps(opts, sort_keys=True) if opts else '', re.sub(r"'[^']*'|\d+", '_', where)[:80]),
                          dict(case, view='after-render'), where=where)
            return
        ctx.count('render', 'tree unchanged by %s%s' % (ts, ' ' + json.dumps(opts, sort_keys=True) if opts else ''))


def check(ctx, text, source):
    install()
    for ts in TOKEN_SETS:
        ctx.ev()
        case = {'text': text, 'token_set': ts, 'source': source}
        LAST.pop('problem', None)
        LAST.pop('stats', None)
        try:
            doc = mt.parse(text, ts)
        except contracts.ContractBroken:
            clause, detail = LAST.get('problem') or ('invariant', 'unknown')
            import re
            ctx.violation(clause, re.sub(r"'[^']*'", "'..'", detail)[:120], case, detail=detail)
            continue
        except Exception as e:  # noqa
            ctx.count('ambient', 'C01:' + mt.exc_site(e))
            continue
        st = LAST.get('stats')
        if st:
            ctx.count('tree', 'tokens', st['tokens'])
            ctx.count('tree', 'tuple-typed children', st['tuple_children'])
            ctx.count('tree', 'list-typed children', st['list_children'])
            ctx.count('tree', 'tables with header', st['headers'])
            for k, v in st['classes'].items():
                ctx.count('classes', k, v)
            for e in st['edges']:
                ctx.seen('edges', '%s>%s' % e)
                ctx.counters['edge'].setdefault('%s>%s' % e, 0)
                ctx.counters['edge']['%s>%s' % e] += 1
            if st['tokens'] > 3:
                ctx.seen('nontrivial', [text, ts])
        check_traverse(ctx, doc, case)
        if ts is not None:
            check_ast_of(ctx, doc, case)
            check_render_leaves_tree(ctx, doc, ts, case)
    ctx.ev()
    check_ast(ctx, text, {'text': text, 'token_set': 'Ast', 'source': source})


def plan(tier):
    if tier == 'quick':
        return {'shards': 8, 'budget_s': 60}
    return {'shards': 16, 'budget_s': 600}


SIZES = {'quick': dict(mixed=16000, gen=3000), 'thorough': dict(mixed=160000, gen=40000)}
PINNED = ['|a|b|\n|-|-|\n|c|\n', '0. a\n', '007. a\n', '`code` <http://x.y> \\* text\n', '    code\n\n```\nfence\n```\n\n<div>\nhtml\n</div>\n',
          '- a\n\n  b\n- > c\n', '$x$ and {{m}}\ntext\n{{/m}}\n', '[a]: /u "t"\n\n[a]\n', 'A\n===\nB\n---\n###### C\n']


EMPTY_CONTAINERS = ['[](u) ![](s) [![](b)](u "t") [][r] ![][r]\n\n[r]: /u\n', '#\n\n##  ##\n\n-\n\n>\n\n1.\n', '|  |\n|--|\n|  |\n\n| a |\n|---|\n', '', '\n', '[r]: /u\n',
                    '*[](u)* **![](s)** ~~[](u)~~\n', '> [](u)\n\n- ![](s)\n', '# [](u)\n\n![](s)\n===\n']


def run(ctx):
    sz = SIZES[ctx.tier]
    rng = ctx.rng
    for i, w in enumerate(PINNED):
        if i % ctx.nshards == ctx.shard:
            check(ctx, w, 'pinned')
    for i, ex in enumerate(workloads.spec()):
        if i % ctx.nshards == ctx.shard:
            check(ctx, ex['markdown'], 'spec')
    for i, (name, text) in enumerate(workloads.sample_files()):
        if i % ctx.nshards == ctx.shard:
            check(ctx, text, 'sample:' + name)
    # containers with nothing in them: empty link / image text, empty cells, headings, items, quotes, the empty document
    for i, w in enumerate(EMPTY_CONTAINERS):
        if i % ctx.nshards == ctx.shard:
            check(ctx, w, 'empty-containers')
    # trees more than a hundred levels deep (the walkers must not stop anywhere): nested quotes, lists, emphasis
    deep = []
    for n in (40, 99, 105, 120):
        deep.append(('deep-quotes-%d' % n, '>' * n + ' a *b* `c`\n'))
    for n in (50, 55, 60):
        deep.append(('deep-lists-%d' % n, ''.join(' ' * (2 * k) + '- x\n' for k in range(n))))
        deep.append(('deep-mixed-%d' % n, '> - ' * n + 'a\n'))
    for n in (60, 99, 110):
        deep.append(('deep-emphasis-%d' % n, '*a **b ' * (n // 2) + 'c' + '** d*' * (n // 2) + '\n'))
    for i, (name, text) in enumerate(deep):
        if i % ctx.nshards == ctx.shard:
            check(ctx, text, name)
    try:
        from .. import gen
    except ImportError:
        gen = None
    if gen is not None:
        for k in range(sz['gen'] // ctx.nshards):
            if ctx.out_of_time():
                break
            check(ctx, gen.generate(rng, profile='full').text, 'generated')
    for k in range(sz['mixed'] // ctx.nshards):
        if ctx.out_of_time():
            break
        kind, text = workloads.mixed(rng)
        check(ctx, workloads.clean_lf(text), kind)
        if k < 2:
            ctx.sample({'source': kind, 'text': text})
    return {'contract_evaluations': dict(contracts.EVALS), 'documents_walked': LAST.get('checked', 0)}


def finalize(m, tier):
    inconclusive = []
    evals = sum(e.get('contract_evaluations', {}).get('C12-tree', 0) for e in m.extra)
    walked = sum(e.get('documents_walked', 0) for e in m.extra)
    if walked < 1000:
        inconclusive.append('the Document invariant walked only %d trees' % walked)
    for need in ('include_source full walk equal', 'klass filter equal', 'depth limit equal'):
        if m.c('traverse').get(need, 0) < 500:
            inconclusive.append('traverse clause "%s" observed %d times' % (need, m.c('traverse').get(need, 0)))
    if m.c('ast').get('mirrors tree', 0) < 500:
        inconclusive.append('AST clause observed %d times' % m.c('ast').get('mirrors tree', 0))
    return {
        'distinct_nontrivial': m.n('nontrivial'),
        'rule': 'each input is parsed under 5 token sets (default, Html, Markdown, LaTeX, XWiki20); an icontract invariant on '
                'block_token.Document walks the finished tree (sharing/cycles, parent links, child kinds, heading levels, list start), '
                'utils.traverse is compared with an own BFS (plain, klass filter, depth limit) and AstRenderer JSON with an own dump. '
                'distinct_nontrivial = distinct (input, token set) pairs whose tree has more than 3 tokens',
        'inconclusive': inconclusive,
        'extra': {'contract': {'backend': contracts.BACKEND, 'invariant_evaluations': evals, 'trees_walked': walked},
                  'parent_child_edges_seen': sorted(m.c('edge')), 'token_classes': m.c('classes'), 'ambient_alerts': m.c('ambient')},
    }


def replay(ctx, case):
    check(ctx, case['text'], case.get('source', 'replay'))


import os as _os  # noqa: E402
if _os.environ.get('VERIF_NO_PINNED'):
    PINNED = []
