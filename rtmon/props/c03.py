"""C03 - documents written out from a tree of constructs parse to that tree (reference-model monitor: generator G)."""
import copy
import itertools
import random

from .. import gen, mt
from ..core import open_findings
from ..htmlnorm import normalize

ID = 'C03'
LEVEL = 'exploration'
ASSUMPTIONS = [
    'the generator rtmon/gen.py writes only documents whose intended tree is the unique CommonMark 0.30 / GFM reading (safety rules '
    'R1-R10 in its docstring, each citing the spec clause it relies on); its expected HTML is written from the tree without any '
    'mistletoe code; tables are serialised in the HTML renderer\'s documented dialect (align always present)',
    'equivalence is the spec driver\'s normalisation (rtmon.htmlnorm) applied to both sides',
    'shapes that hit a listed known finding are switched off in the generator (gen.Opt flags) and exercised by pinned witnesses instead',
]

LEAVES = ['para', 'para2', 'atx', 'setext', 'hr', 'fence', 'fence-unclosed-last', 'icode', 'table', 'html6', 'html1', 'html2', 'html7', 'refdef+use', 'list-in-item']
CONTAINERS = ['quote', 'tight', 'loose']

# boundary strata: shapes that sit ON a spec boundary, each pinned by a numbered 0.30 example at top level (the sweep
# puts them under every container path).  (lines, expected HTML)
BOUNDARY = [
    (['####### foo'], '<p>####### foo</p>'), (['#5 bolt', '', '#hashtag'], '<p>#5 bolt</p>\n<p>#hashtag</p>'), (['\\## foo'], '<p>## foo</p>'),
    ([' ### foo', '  ## foo', '   # foo'], '<h3>foo</h3>\n<h2>foo</h2>\n<h1>foo</h1>'), (['foo', '    # bar'], '<p>foo\n# bar</p>'),
    (['## foo ##', '  ###   bar    ###'], '<h2>foo</h2>\n<h3>bar</h3>'), (['### foo ### b'], '<h3>foo ### b</h3>'), (['# foo#'], '<h1>foo#</h1>'),
    (['### foo \\###', '## foo #\\##', '# foo \\#'], '<h3>foo ###</h3>\n<h2>foo ###</h2>\n<h1>foo #</h1>'),
    (['+++'], '<p>+++</p>'), (['==='], '<p>===</p>'), (['--', '**', '__'], '<p>--\n**\n__</p>'),
    ([' ***', '  ***', '   ***'], '<hr />\n<hr />\n<hr />'), (['Foo', '    ***'], '<p>Foo\n***</p>'),
    (['_____________________________________'], '<hr />'), (['_ _ _ _ a', '', 'a------', '', '---a---'], '<p>_ _ _ _ a</p>\n<p>a------</p>\n<p>---a---</p>'),
    ([' *-*'], '<p><em>-</em></p>'), (['-one', '', '2.two'], '<p>-one</p>\n<p>2.two</p>'), (['1234567890. not ok'], '<p>1234567890. not ok</p>'),
    (['-1. not ok'], '<p>-1. not ok</p>'), (['The number of windows in my house is', '14.  The number of doors is 6.'],
                                           '<p>The number of windows in my house is\n14.  The number of doors is 6.</p>'),
    (['The number of windows in my house is', '1.  The number of doors is 6.'], '<p>The number of windows in my house is</p>\n<ol>\n<li>The number of doors is 6.</li>\n</ol>'),
    (['[foo]: /url "title" ok'], '<p>[foo]: /url "title" ok</p>'), (['`` foo ` bar ``'], '<p><code>foo ` bar</code></p>'),
    (['` `` `'], '<p><code>``</code></p>'), (['`  ``  `'], '<p><code> `` </code></p>'), (['*foo`*`'], '<p>*foo<code>*</code></p>'),
    (['[not a `link](/foo`)'], '<p>[not a <code>link](/foo</code>)</p>'), (['`foo', '', '`foo``bar``'], '<p>`foo</p>\n<p>`foo<code>bar</code></p>'),
    (['<http://foo.bar.`baz>`'], '<p><a href="http://foo.bar.%60baz">http://foo.bar.`baz</a>`</p>'),
    (['```', 'aaa', '~~~', '```'], '<pre><code>aaa\n~~~\n</code></pre>'), (['````', 'aaa', '```', '``````'], '<pre><code>aaa\n```\n</code></pre>'),
    (['``` ```', 'aaa'], '<p><code> </code>\naaa</p>'), (['~~~ aa ``` ~~~', 'foo', '~~~'], '<pre><code class="language-aa">foo\n</code></pre>'),
    (['<div>', '*hello*', '         <foo><a>'], '<div>\n*hello*\n         <foo><a>'), (['<a href="foo">', '*bar*', '</a>'], '<a href="foo">\n*bar*\n</a>'),
    (['<del>*foo*</del>'], '<p><del><em>foo</em></del></p>'), (['<del>', '', '*foo*', '', '</del>'], '<del>\n<p><em>foo</em></p>\n</del>'),
    (['foo\\', 'baz', '', 'foo       ', 'baz'], '<p>foo<br />\nbaz</p>\n<p>foo<br />\nbaz</p>'), (['foo\\', '', '### foo  '], '<p>foo\\</p>\n<h3>foo</h3>'),
    (['*foo bar *', '', 'a * foo bar*', '', 'foo*bar*'], '<p>*foo bar *</p>\n<p>a * foo bar*</p>\n<p>foo<em>bar</em></p>'),
    (['_foo_bar_baz_', '', 'пристаням_стремятся_', '', '__foo, __bar__, baz__'], '<p><em>foo_bar_baz</em></p>\n<p>пристаням_стремятся_</p>\n<p><strong>foo, <strong>bar</strong>, baz</strong></p>'),
    (['[link](foo(and(bar)))', '', '[link](<foo(and(bar)>)', '', '[link](foo\\(and\\(bar\\))'],
     '<p><a href="foo(and(bar))">link</a></p>\n<p><a href="foo(and(bar)">link</a></p>\n<p><a href="foo(and(bar)">link</a></p>'),
    (['[foo *bar](baz*)', '', '*foo [bar* baz]'], '<p><a href="baz*">foo *bar</a></p>\n<p><em>foo [bar</em> baz]</p>'),
    (['![foo *bar*][]', '', '[foo *bar*]: train.jpg "train & tracks"'], '<p><img src="train.jpg" alt="foo bar" title="train &amp; tracks" /></p>'),
    (['-     foo'], '<ul>\n<li>\n<pre><code>foo\n</code></pre>\n</li>\n</ul>'), (['123456789. ok'], '<ol start="123456789">\n<li>ok</li>\n</ol>'),
    (['   ```', '   aaa', '    aaa', '  aaa', '   ```'], '<pre><code>aaa\n aaa\naaa\n</code></pre>'), (['    ```', '    aaa', '    ```'], '<pre><code>```\naaa\n```\n</code></pre>'),
    (['1. a', '', '  2. b', '', '   3. c'], '<ol>\n<li>\n<p>a</p>\n</li>\n<li>\n<p>b</p>\n</li>\n<li>\n<p>c</p>\n</li>\n</ol>'),
    (['- a', ' - b', '  - c', '   - d', '    - e'], '<ul>\n<li>a</li>\n<li>b</li>\n<li>c</li>\n<li>d\n- e</li>\n</ul>'),
    (['10) foo', '    - bar'], '<ol start="10">\n<li>foo\n<ul>\n<li>bar</li>\n</ul>\n</li>\n</ol>'), (['10) foo', '   - bar'], '<ol start="10">\n<li>foo</li>\n</ol>\n<ul>\n<li>bar</li>\n</ul>'),
    (['> # Foo', '> bar', '> baz'], '<blockquote>\n<h1>Foo</h1>\n<p>bar\nbaz</p>\n</blockquote>'), (['>     code', '', '>    not code'], '<blockquote>\n<pre><code>code\n</code></pre>\n</blockquote>\n<blockquote>\n<p>not code</p>\n</blockquote>'),
    (['&nbsp; &amp; &copy; &AElig; &Dcaron;', '', '&#35; &#1234; &#992; &#0;', '', '&nbsp &x; &#; &#x;'],
     '<p>\xa0 &amp; © Æ Ď</p>\n<p># Ӓ Ϡ \ufffd</p>\n<p>&amp;nbsp &amp;x; &amp;#; &amp;#x;</p>'),
    # 4.3: an underline is a run of '=' or a run of '-'; 6.5: what separates a URI autolink from an email autolink
    (['foo', '=-=', '', 'bar', '--='], '<p>foo\n=-=</p>\n<p>bar\n--=</p>'),
    (['<https://user@host/> <mailto@example.com> <MAILTO:a@b.c> <a.b@c.d>'],
     '<p><a href="https://user@host/">https://user@host/</a> <a href="mailto:mailto@example.com">mailto@example.com</a> '
     '<a href="MAILTO:a@b.c">MAILTO:a@b.c</a> <a href="mailto:a.b@c.d">a.b@c.d</a></p>'),
    # 6.1 / 6.2 in link destinations, titles and info strings: an escaped ampersand starts no reference, an escaped backslash
    # stays one, a reference needs its ';'
    (['[a](/u "\\&amp; &amp; \\\\&amp;") [b](/\\&amp;)'], '<p><a href="/u" title="&amp;amp; &amp; \\&amp;">a</a> <a href="/&amp;amp;">b</a></p>'),
    (['[ref a]: /u\\\\*x "&copy &copy; \\&copy;"', '', '[ref a] ![Ref  A][]'],
     '<p><a href="/u%5C*x" title="&amp;copy © &amp;copy;">ref a</a> <img src="/u%5C*x" alt="Ref  A" title="&amp;copy © &amp;copy;" /></p>'),
    (['```&copy', 'x', '```', '', '~~~ \\&amp;', '~~~'], '<pre><code class="language-&amp;copy">x\n</code></pre>\n<pre><code class="language-&amp;amp;"></code></pre>'),
    # 5.1: a '>' behind four or more columns of indentation is no quote marker
    (['> a', '    > b', '', '> c', '>', '    > code'], '<blockquote>\n<p>a\n&gt; b</p>\n</blockquote>\n<blockquote>\n<p>c</p>\n</blockquote>\n<pre><code>&gt; code\n</code></pre>'),
    # 4.5: a closing fence carries no info string; 4.6 condition 1: case-insensitive start, any of the four end tags ends it
    (['```', 'code', '```aaa', 'more', '```'], '<pre><code>code\n```aaa\nmore\n</code></pre>'),
    (['~~~', 'a', '~~~ ~', 'b', '~~~~  '], '<pre><code>a\n~~~ ~\nb\n</code></pre>'),
    (['<PRE>', '', '*foo*', '</PRE>', '', '*bar*'], '<PRE>\n\n*foo*\n</PRE>\n<p><em>bar</em></p>'),
    (['<pre>', 'x', '', '</script> y </pre>', '', '*foo*'], '<pre>\nx\n\n</script> y </pre>\n<p><em>foo</em></p>'),
    # 4.2: '# # #' has the content '#'; 6.1: the padding rule of code spans is about U+0020 only; 5.2: ASCII digits only
    (['# # #', '', '### ###', '', '## # ##', '', '# ## #'], '<h1>#</h1>\n<h3></h3>\n<h2>#</h2>\n<h1>##</h1>'),
    (['` \xa0 ` and ` \t ` and `  `'], '<p><code>\xa0</code> and <code>\t</code> and <code>  </code></p>'),
    (['\u0661. foo', '', '\uff11) bar', '', 'text', '\u0661. baz'], '<p>\u0661. foo</p>\n<p>\uff11) bar</p>\n<p>text\n\u0661. baz</p>'),
    # 2.1 / 4.4: blank lines made of white space neither start nor pad an indented code block; 5.1 with tabs: only the marker's tab is a tab stop
    (['a', '', '      ', 'para', '', '    code', '      ', '', 'b'], '<p>a</p>\n<p>para</p>\n<pre><code>code\n</code></pre>\n<p>b</p>'),
    (['> > a', '> >\t', '> > b', '', '> >\tx', '', '> c >\td'], '<blockquote>\n<blockquote>\n<p>a</p>\n<p>b</p>\n</blockquote>\n</blockquote>\n<blockquote>\n<blockquote>\n<p>x</p>\n</blockquote>\n</blockquote>\n<blockquote>\n<p>c &gt;\td</p>\n</blockquote>'),
    # GFM tables: empty cells, short rows
    (['|a||c|', '|-|-|-|', '|1||3|', '|x|'],
     '<table>\n<thead>\n<tr>\n<th align="left">a</th>\n<th align="left"></th>\n<th align="left">c</th>\n</tr>\n</thead>\n<tbody>\n<tr>\n<td align="left">1</td>\n'
     '<td align="left"></td>\n<td align="left">3</td>\n</tr>\n<tr>\n<td align="left">x</td>\n<td align="left"></td>\n<td align="left"></td>\n</tr>\n</tbody>\n</table>'),
    # 5.1 / 5.2 laziness: only a line that continues an open paragraph is a lazy continuation line - after a heading, a thematic
    # break, a code block or an HTML block the container ends; paragraph text of a nested item indented four columns is still a paragraph
    (['> # h', 'text'], '<blockquote>\n<h1>h</h1>\n</blockquote>\n<p>text</p>'),
    (['- # h', 'text'], '<ul>\n<li>\n<h1>h</h1>\n</li>\n</ul>\n<p>text</p>'),
    (['> > ---', 'text', '', '> - ***', 'text'], '<blockquote>\n<blockquote>\n<hr />\n</blockquote>\n</blockquote>\n<p>text</p>\n<blockquote>\n<ul>\n<li>\n<hr />\n</li>\n</ul>\n</blockquote>\n<p>text</p>'),
    (['> ```', '> a', 'text', '', '> <div>', 'text'], '<blockquote>\n<pre><code>a\n</code></pre>\n</blockquote>\n<p>text</p>\n<blockquote>\n<div>\n</blockquote>\n<p>text</p>'),
    (['> 10. a', '>', '>     para', 'lazy'], '<blockquote>\n<ol start="10">\n<li>\n<p>a</p>\n<p>para\nlazy</p>\n</li>\n</ol>\n</blockquote>'),
    (['> [foo]: /url', 'lazy [foo]'], '<blockquote>\n<p>lazy <a href="/url">foo</a></p>\n</blockquote>'),
    (['1000.     code', '    more'], '<ol start="1000">\n<li>\n<pre><code>code\n</code></pre>\n</li>\n</ol>\n<pre><code>more\n</code></pre>'),
    (['- > # h', 'text', '', '> - a', '>', '>   # h', '  2. x'],
     '<ul>\n<li>\n<blockquote>\n<h1>h</h1>\n</blockquote>\n</li>\n</ul>\n<p>text</p>\n<blockquote>\n<ul>\n<li>\n<p>a</p>\n<h1>h</h1>\n</li>\n</ul>\n</blockquote>\n<ol start="2">\n<li>x</li>\n</ol>'),
    # 5.2 / 5.3: the blank line after an empty last item belongs to what contains the list
    (['- 1. w', '  2.', '', '  w'], '<ul>\n<li>\n<ol>\n<li>w</li>\n<li></li>\n</ol>\n<p>w</p>\n</li>\n</ul>'),
    (['- 1. w', '  2.', '', '- x'], '<ul>\n<li>\n<ol>\n<li>w</li>\n<li></li>\n</ol>\n</li>\n<li>\n<p>x</p>\n</li>\n</ul>'),
    (['- a', '-', '', '* * *', '', '+', '', '- - -'], '<ul>\n<li>a</li>\n<li></li>\n</ul>\n<hr />\n<ul>\n<li></li>\n</ul>\n<hr />'),
    # 5.2 + GFM tables: a line with a list marker starts an item, also when the item begins with a table (only a thematic break wins)
    (['- a', '- | x |', '  |---|', '- - -', '- b'],
     '<ul>\n<li>a</li>\n<li>\n<table>\n<thead>\n<tr>\n<th align="left">x</th>\n</tr>\n</thead>\n<tbody>\n</tbody>\n</table>\n</li>\n</ul>\n<hr />\n<ul>\n<li>b</li>\n</ul>'),
    # 4.6 condition 6: the tag name may be followed by '/>' as well as by a space, a tab, '>' or the end of the line - such a
    # block interrupts a paragraph
    (['text', '<hr/>', '', 'text', '<div/>x', '', '<HR/>', '*a*'], '<p>text</p>\n<hr/>\n<p>text</p>\n<div/>x\n<HR/>\n*a*'),
    # 5.1 (examples 239-241): a block quote can be empty - bare markers, between blocks, first in its container, last in its container
    (['a', '', '>', '', 'b'], '<p>a</p>\n<blockquote>\n</blockquote>\n<p>b</p>'), (['>', '>  ', '> '], '<blockquote>\n</blockquote>'),
    (['> >', '> foo'], '<blockquote>\n<blockquote>\n</blockquote>\n<p>foo</p>\n</blockquote>'), (['x', '', '>'], '<p>x</p>\n<blockquote>\n</blockquote>'),
]
LEAVES = LEAVES + ['boundary:%d' % i for i in range(len(BOUNDARY))]


def compare(ctx, doc, case, source, key=None):
    ctx.ev()
    text = doc.text
    if ctx.case_index % 5 == 0 and text.endswith('\n') and not text.endswith('\n\n'):
        text = text[:-1]              # the last block of a document need not end in a newline
        ctx.count('spelling', 'no final newline')
    try:
        got = mt.html(text)
    except Exception as e:  # noqa
        ctx.violation('raises', mt.exc_site(e), case, text=doc.text, traceback=mt.tb_text(e))
        return False
    if normalize(got) != normalize(doc.html):
        ctx.violation('html-differs-from-tree', key or mechanism(doc), case, text=doc.text, expected=doc.html, observed=got)
        return False
    for k, v in doc.kinds.items():
        ctx.counters['container_paths'][k] += v
    for k, v in doc.stats.items():
        ctx.counters['spellings'][k] += v
    ctx.count('held', source)
    if len(doc.kinds) > 1:
        ctx.seen('nontrivial', doc.text)
    return True


def mechanism(doc):
    """Mechanism key of a disagreement: the set of deepest container paths involved (the generator-side minimiser in
    tools/ gives the precise construct; here the key only has to be stable and payload-free)."""
    kinds = sorted(doc.kinds)
    return 'constructs: ' + ' '.join(kinds)[:150]


def check_generated(ctx, seed, profile='full', **over):
    rng = random.Random(seed)
    try:
        doc = gen.generate(rng, profile=profile, **over)
    except AssertionError as e:
        ctx.count('generator', 'rejected by own safety rules: %s' % str(e)[:40])
        return
    compare(ctx, doc, {'kind': 'generated', 'seed': seed, 'profile': profile, 'over': over}, 'generated')
    return doc


# ---- systematic sweep: one construct x every container path of length <= 3 -------------------------

def make_leaf(g, rng, kind):
    N = gen.Node
    if kind == 'para':
        return [g.para()]
    if kind == 'para2':
        return [N('para', inl=[('text', 'alpha'), ('soft',), ('text', 'beta'), ('em', '*', [('text', 'gamma')], ''), ('hard', '  '), ('text', 'delta')]), g.para()]
    if kind == 'atx':
        return [g.atx()]
    if kind == 'setext':
        return [g.setext()]
    if kind == 'hr':
        return [g.hr()]
    if kind == 'fence':
        return [g.fence(), g.para()]
    if kind == 'fence-unclosed-last':
        f = g.fence()
        f.closed = False
        return [g.para(), f]
    if kind == 'icode':
        return [g.atx(), g.icode()]
    if kind == 'table':
        return [g.table()]
    if kind.startswith('html'):
        pool = {'html6': gen.HTML6, 'html1': gen.HTML1, 'html2': gen.HTML2, 'html7': gen.HTML7}[kind]
        return [N('html', cond=int(kind[4:]), lines=list(rng.choice(pool))), g.para()]
    if kind == 'refdef+use':
        d = g.refdef()
        p = g.para()
        p.inl = p.inl + [('reflink', [('text', gen.vary_label(rng, d.label))], rng.choice(('collapsed', 'shortcut')), d.label, d.dest, d.title, False), ('text', 'end')]
        return [p, d] if rng.random() < 0.5 else [d, p]
    if kind == 'list-in-item':
        return [g.para(), g.list_(3, False)]
    if kind.startswith('boundary:'):
        lines, html = BOUNDARY[int(kind.split(':')[1])]
        # blank lines inside a literal block separate top-level blocks unless the block is ONE list whose items they separate
        one_list = html.startswith(('<ol', '<ul')) and html.endswith(('</ol>', '</ul>')) and html.count('<ol') + html.count('<ul') == html.count('\n<ol') + html.count('\n<ul') + 1 \
            and not any(l and not l[0].isspace() and not l[0].isdigit() and l[0] not in '-+*' for l in lines)
        return [N('custom', lines=list(lines), html=html, top_blocks=1 if one_list else 2)]
    raise ValueError(kind)


def wrap(g, rng, blocks, container):
    N = gen.Node
    if container == 'quote':
        return [N('quote', blocks=blocks, space=rng.random() < 0.7, indent=rng.choice((0, 0, 1, 3)))]
    tight = container == 'tight'
    items = [N('item', blocks=blocks, pad=rng.choice((1, 2, 4)), blank_start=False)]
    if rng.random() < 0.6:
        items.append(N('item', blocks=[g.para()], pad=1, blank_start=False))
    return [N('list', ordered=rng.random() < 0.5, start=rng.choice((1, 1, 3, 10)), delim=rng.choice('.)'), bullet=rng.choice('-+*'), tight=tight,
              items=items, indent=rng.choice((0, 0, 2)))]


def sweep_cases():
    for leaf in LEAVES:
        for n in range(0, 4):
            for path in itertools.product(CONTAINERS, repeat=n):
                yield leaf, path


def check_sweep(ctx, leaf, path, variant):
    rng = random.Random('%s|%s|%d|%d' % (leaf, '/'.join(path), variant, ctx.seed))
    opt = gen.Opt()
    g = gen.Gen(rng, opt)
    blocks = make_leaf(g, rng, leaf)
    inner_quote = False
    for c in reversed(path):
        if c == 'tight':
            # a tight item may only hold what can follow a paragraph directly
            ok = all(gen.can_follow(a, b) for a, b in zip(blocks, blocks[1:])) and blocks[0].kind not in ('icode',)
            if not ok:
                c = 'loose'
        blocks = wrap(g, rng, blocks, c)
    case = {'kind': 'sweep', 'leaf': leaf, 'path': list(path), 'variant': variant}
    try:
        # setext under a quote is a known finding -> re-spell as ATX in that case
        def fix(bl, in_quote):
            for nd in bl:
                if nd.kind == 'setext' and in_quote:
                    nd.kind = 'atx'
                    nd.closing = ''
                    nd.inl = [('text', w) for w in gen.inl_plain(nd.inl).split() if w.isalpha()][:4] or [('text', 'title')]   # one line, no nested breaks
                if nd.kind == 'quote':
                    fix(nd.blocks, True)
                elif nd.kind == 'list':
                    for it in nd.items:
                        if it.blocks and it.blocks[0].kind == 'hr':
                            it.blocks[0].spell = '___'
                        fix(it.blocks, in_quote)
        fix(blocks, False)
        doc = gen.emit(rng, opt, g, blocks, 'sweep')
    except AssertionError as e:
        ctx.count('generator', 'sweep case rejected by safety rules: %s' % str(e)[:40])
        return
    compare(ctx, doc, case, 'sweep', key='sweep leaf=%s under %s' % (leaf, '>'.join(c[0] for c in path) or 'doc') if leaf.startswith('boundary') else None)


# ---- known findings: pinned witnesses only (the generator avoids their shapes) ---------------------

def classify(clause, key, case, detail):
    return None


def pinned_witness(finding):
    w = finding['pinned_witness']
    return normalize(mt.html(w['text'])) != normalize(w['expected_html'])


def plan(tier):
    if tier == 'quick':
        return {'shards': 8, 'budget_s': 90}
    return {'shards': 16, 'budget_s': 900}


SIZES = {'quick': dict(docs=12000, variants=3), 'thorough': dict(docs=600000, variants=12)}


def run(ctx):
    sz = SIZES[ctx.tier]
    # fixed regression documents (witnesses of repaired defects stay pinned here)
    for i, (text, html) in enumerate(PINNED):
        if i % ctx.nshards == ctx.shard:
            ctx.ev()
            try:
                got = mt.html(text)
            except Exception as e:  # noqa
                ctx.violation('raises', mt.exc_site(e), {'kind': 'pinned', 'text': text}, traceback=mt.tb_text(e))
                continue
            if normalize(got) != normalize(html):
                ctx.violation('html-differs-from-tree', 'pinned: %r' % text[:30], {'kind': 'pinned', 'text': text, 'html': html}, expected=html, observed=got)
    k = 0
    for leaf, path in sweep_cases():
        for v in range(sz['variants']):
            k += 1
            if k % ctx.nshards == ctx.shard:
                check_sweep(ctx, leaf, path, v)
    base = ctx.seed * 1000003
    for i in range(sz['docs']):
        if i % ctx.nshards != ctx.shard:
            continue
        if ctx.out_of_time():
            break
        doc = check_generated(ctx, base + i)
        if doc is not None and len(ctx.samples) < 2 and len(doc.text) < 600:
            ctx.sample({'seed': base + i, 'markdown': doc.text, 'expected_html': doc.html})


PINNED = [
    ('. foo\n', '<p>. foo</p>\n'),
    ('para\n) bar\n', '<p>para\n) bar</p>\n'),
    ('**a****b*\n', '<p>**a***<em>b</em></p>\n'),
    ('![a](x"y)\n', '<p><img src="x%22y" alt="a" /></p>\n'),
    ('- a\n  > b\n- c\n', '<ul>\n<li>a\n<blockquote>\n<p>b</p>\n</blockquote>\n</li>\n<li>c</li>\n</ul>\n'),
    ('~~foo\nbar~~\n', '<p><del>foo\nbar</del></p>\n'),
    ('![foo\nbar  \nbaz](/u)\n', '<p><img src="/u" alt="foo\nbar\nbaz" /></p>\n'),
    ('para\n<div>\nx\n</div>\n', '<p>para</p>\n<div>\nx\n</div>\n'),
]


def finalize(m, tier):
    inconclusive = []
    held = m.c('held')
    if held.get('generated', 0) < 1000:
        inconclusive.append('only %d generated documents compared' % held.get('generated', 0))
    paths = m.c('container_paths')
    return {
        'distinct_nontrivial': m.n('nontrivial'),
        'rule': 'seeded documents from the grammar generator (trees up to depth 4 / ~40 blocks, free spellings: markers, 0-3 spaces of '
                'indent, marker padding 1-4, fence length/char, closing # runs, ">" with/without space, lazy continuation lines, omitted '
                'blank lines where a block may interrupt, placement of link definitions) plus a systematic sweep of %d leaf constructs x '
                'every container path of length <= 3 over {quote, tight list, loose list}; the rendered HTML must equal, after the spec '
                'driver\'s normalisation, the HTML written from the tree. distinct_nontrivial = distinct documents with at least two '
                'different container paths' % len(LEAVES),
        'inconclusive': inconclusive,
        'extra': {'distinct_container_paths': len(paths), 'container_paths_top': dict(sorted(paths.items(), key=lambda kv: -kv[1])[:60]),
                  'spelling_choices': m.c('spellings'), 'held': held, 'generator': m.c('generator')},
    }


def replay(ctx, case):
    if case['kind'] == 'generated':
        check_generated(ctx, case['seed'], case.get('profile', 'full'), **case.get('over', {}))
    elif case['kind'] == 'sweep':
        check_sweep(ctx, case['leaf'], tuple(case['path']), case['variant'])
    else:
        got = mt.html(case['text'])
        if normalize(got) != normalize(case['html']):
            ctx.violation('html-differs-from-tree', 'pinned', case, expected=case['html'], observed=got)


import os as _os  # noqa: E402
if _os.environ.get('VERIF_NO_PINNED'):
    PINNED = []
