"""C04 - quoting or list-indenting a document wraps its parse unchanged (relational monitor, CommonMark 5.1/5.2 basic cases)."""
import re

from .. import mt, tree, workloads
from ..core import open_findings

ID = 'C04'
LEVEL = 'exploration'
ASSUMPTIONS = [
    'domain: no tab, text does not end in a blank line; list law additionally: first character is not a space and no whitespace-only line '
    '(such a line inside a fence makes "indent every non-blank line" differ from the spec\'s basic case, spec ex. 129)',
    'quote marker ">" (without space) is only applied when no line starts with a space (the spec\'s marker (b) is ">" NOT followed by a space)',
    'list markers whose first embedded line would be a thematic break are excluded, as the specification resolves them the other way',
    'looseness flags and layout attributes of the synthetic wrapper are ignored; line numbers are set aside',
]

TOKEN_SETS = [None, 'Html']
QUOTE_MARKERS = ['> ', '>']
HR = re.compile(r'^ {0,3}(?:([-_*])[ \t]*)(?:\1[ \t]*){2,}$')


def list_markers(rng):
    out = []
    for m in ('+', '-', '*'):
        out.append(m)
    n = str(rng.choice((0, 1, 2, 7, 10, 99, 123456789, rng.randint(0, 999999999))))
    out.append(n + '.')
    out.append(n + ')')
    return out


def quote_embed(x, marker):
    lines = x.split('\n')
    tail = ''
    if lines and lines[-1] == '':
        lines = lines[:-1]
        tail = '\n'
    return '\n'.join((marker + l) if l else marker.rstrip() if marker == '> ' and False else (marker + l) for l in lines) + tail


def list_embed(x, marker, pad):
    lines = x.split('\n')
    tail = ''
    if lines and lines[-1] == '':
        lines = lines[:-1]
        tail = '\n'
    w = len(marker) + pad
    out = [marker + ' ' * pad + lines[0]]
    for l in lines[1:]:
        out.append((' ' * w + l) if l.strip() else l)
    return '\n'.join(out) + tail


def in_domain(x):
    if '\t' in x:
        return 'tab'
    if not x.strip('\n'):
        return 'empty'
    body = x[:-1] if x.endswith('\n') else x
    lines = body.split('\n')
    if lines[-1].strip() == '':
        return 'ends in blank line'
    return None


def has_ws_only_line(x):
    return any(l not in ('', '\r') and l.strip() == '' for l in x.split('\n'))       # ('\r': blank line of a CR LF document)


def parse(text, ts):
    return mt.parse(text, ts, scrub_first=True)


def canon_children(tok):
    return [tree.canon(c) for c in (tok.children or [])]


def parse_plain_setext_off(x, ts):
    """Counterfactual for finding C04-setext-in-quote: the plain text parsed the way quote content is parsed today, i.e.
    starting with setext recognition switched off (the one internal knob the defect consists of).  If the knob is gone the
    classifier simply attributes nothing."""
    from mistletoe import block_token
    P = block_token.Paragraph
    if not hasattr(P, 'parse_setext'):
        raise LookupError('Paragraph.parse_setext no longer exists')
    old = P.parse_setext

    class _Doc(block_token.Document):
        pass
    cls = mt.renderer_class(ts) if ts else None
    try:
        if cls is not None:
            with cls():
                mt.scrub()
                P.parse_setext = False
                return mt.Document(x)
        mt.scrub()
        P.parse_setext = False
        return mt.Document(x)
    finally:
        P.parse_setext = old
        mt.reset()


def law_quote(x, marker, ts, emulate_setext_off=False):
    """Returns None when the law holds, else (clause, key, detail)."""
    plain = parse_plain_setext_off(x, ts) if emulate_setext_off else parse(x, ts)
    emb = parse(quote_embed(x, marker), ts)
    want = canon_children(plain)
    kids = list(emb.children or [])
    if len(kids) != 1 or type(kids[0]).__name__ != 'Quote':
        return 'quote-not-single', 'top level is %s' % [type(k).__name__ for k in kids][:4], {'expected_children': repr(want)[:600]}
    got = canon_children(kids[0])
    if got != want:
        return 'quote-content-differs', tree.diff_kind(want, got), {'first_difference': tree.first_diff(want, got)}
    if plain.footnotes != emb.footnotes:
        return 'definitions-differ', 'quote', {'plain': repr(plain.footnotes)[:300], 'embedded': repr(emb.footnotes)[:300]}
    return None


def law_list(x, marker, pad, ts):
    plain = parse(x, ts)
    emb = parse(list_embed(x, marker, pad), ts)
    want = canon_children(plain)
    kids = list(emb.children or [])
    if len(kids) != 1 or type(kids[0]).__name__ != 'List' or len(kids[0].children) != 1:
        return 'list-not-single-item', 'top level is %s' % [type(k).__name__ + ('[%d]' % len(k.children) if type(k).__name__ == 'List' else '')
                                                         for k in kids][:4], {'expected_children': repr(want)[:600]}
    got = canon_children(kids[0].children[0])
    if got != want:
        return 'item-content-differs', tree.diff_kind(want, got), {'first_difference': tree.first_diff(want, got)}
    if plain.footnotes != emb.footnotes:
        return 'definitions-differ', 'list', {'plain': repr(plain.footnotes)[:300], 'embedded': repr(emb.footnotes)[:300]}
    return None


# ---- known finding: setext headings are not recognised inside block quotes ----------------

UNDERLINE = re.compile(r'^[> ]*[=-]+ *$')


def setext_starts(x, ts):
    doc = parse(x, ts)
    return [tok.line_number for tok, parent, depth in tree.walk(doc)
            if type(tok).__name__ == 'SetextHeading' and isinstance(tok.line_number, int)]


def blank_underline(line):
    stripped = re.sub(r'[=-]+ *$', '', line)
    return stripped.rstrip() if stripped.strip() else ''


def neutralise_setext(x, ts):
    """Counterfactual neutraliser: blank out the underline of every setext heading (keeping container markers), which
    removes exactly the trigger of the known defect.  The underline of a heading that starts on line s is found
    experimentally: the first underline-looking line after s whose blanking makes the real parser stop reporting a
    setext heading at s (a content line indented by four or more columns may look like an underline without being one)."""
    starts = setext_starts(x, ts)
    if not starts:
        return None
    lines = x.split('\n')
    for s_line in sorted(set(starts), reverse=True):
        for n in range(s_line + 1, len(lines) + 1):
            if not UNDERLINE.match(lines[n - 1]):
                continue
            trial = list(lines)
            trial[n - 1] = blank_underline(trial[n - 1])
            after = setext_starts('\n'.join(trial), ts)
            if s_line not in after and len(after) == len(setext_starts('\n'.join(lines), ts)) - 1:
                lines = trial
                break
    y = '\n'.join(lines)
    if setext_starts(y, ts):
        return None            # could not remove every trigger: do not attribute
    # keep the neutralised witness inside the domain
    while y.endswith('\n\n'):
        y = y[:-1]
    return y


def _odd_ws(c):
    # whitespace for str.strip / \s but not for CommonMark; CR is a line ending (CR LF documents) and never neutralised
    return c.isspace() and c not in ' \n\r'


def neutralise_unicode_ws(x):
    if not any(_odd_ws(c) for c in x):
        return None
    return ''.join('x' if _odd_ws(c) else c for c in x)


def law(case, x):
    ts = case.get('token_set')
    if case['law'] == 'quote':
        return law_quote(x, case['marker'], ts)
    return law_list(x, case['marker'], case['pad'], ts)


def classify(clause, key, case, detail):
    fids = [f['id'] for f in open_findings(ID)]
    ts = case.get('token_set')
    x = case['x']
    try:
        # each neutraliser removes exactly one trigger; a violation is attributed only if the SAME law
        # holds on the neutralised witness.  Both triggers may be present at once.
        y = x
        used = []
        if 'C04-unicode-whitespace' in fids:
            z = neutralise_unicode_ws(y)
            if z is not None and not in_domain(z) and (case['law'] == 'quote' or z[0] not in ' \n\r'):
                if law(case, z) is None:
                    return 'C04-unicode-whitespace'
                y = z
                used.append('C04-unicode-whitespace')
        if 'C04-setext-in-quote' in fids and case['law'] == 'quote' and setext_starts(y, ts):
            # attributed iff the quoted tree is exactly what the plain text gives with setext recognition off
            if law_quote(y, case['marker'], ts, emulate_setext_off=True) is None:
                return 'C04-setext-in-quote'
    except Exception:
        return None
    return None


def pinned_witness(finding):
    w = finding['pinned_witness']
    return law(dict(w, token_set=None), w['x']) is not None


def check(ctx, x, source, markers=None):
    rng = ctx.rng
    why = in_domain(x)
    if why:
        ctx.count('skipped_by_filter', why)
        return
    for ts in TOKEN_SETS:
        for qm in QUOTE_MARKERS:
            if qm == '>' and any(l.startswith(' ') for l in x.split('\n')):
                ctx.count('skipped_by_filter', 'marker ">" with a line starting with a space')
                continue
            ctx.ev()
            case = {'x': x, 'law': 'quote', 'marker': qm, 'token_set': ts, 'source': source}
            try:
                r = law_quote(x, qm, ts)
            except Exception as e:  # noqa
                ctx.count('ambient', 'C01:' + mt.exc_site(e))
                continue
            ctx.count('embedding', 'quote %r' % qm)
            if r:
                ctx.violation(r[0], 'quote: ' + r[1], case, **r[2])
            else:
                ctx.count('held', 'quote')
        if x[0] in ' \n\r':
            ctx.count('skipped_by_filter', 'list law: first line blank or starting with a space')
            continue
        if has_ws_only_line(x):
            # "W spaces before every other NON-BLANK line" leaves whitespace-only lines alone, which differs from the spec's
            # basic case inside code blocks (spec ex. 129): the list law is only stated for texts without such lines
            ctx.count('skipped_by_filter', 'list law: whitespace-only line')
            continue
        for marker in (markers or rng.sample(list_markers(rng), 3)):
            pad = rng.randint(1, 4)
            first = list_embed(x, marker, pad).split('\n')[0]
            if HR.match(first.rstrip('\r')):
                ctx.count('skipped_by_filter', 'marker + first line is a thematic break')
                continue
            ctx.ev()
            case = {'x': x, 'law': 'list', 'marker': marker, 'pad': pad, 'token_set': ts, 'source': source}
            try:
                r = law_list(x, marker, pad, ts)
            except Exception as e:  # noqa
                ctx.count('ambient', 'C01:' + mt.exc_site(e))
                continue
            ctx.count('embedding', 'list %s pad=%d' % (marker if len(marker) == 1 else 'N' + marker[-1], pad))
            if r:
                ctx.violation(r[0], 'list: ' + r[1], case, **r[2])
            else:
                ctx.count('held', 'list')
    ctx.seen('nontrivial', x)


def plan(tier):
    if tier == 'quick':
        return {'shards': 8, 'budget_s': 60}
    return {'shards': 16, 'budget_s': 600}


SIZES = {'quick': dict(n=8000), 'thorough': dict(n=300000)}
PINNED = ['```\na\n\nb\n```\n', '<pre>\na\n\nb\n</pre>\n', '<!--\n\nc\n-->\nx\n', '    code\n\n    more\n\ntext\n', 'a | b\n--|--\nc | d\n',
          '[l]: /u "t"\n\n[l] text\n', '- a\n- b\n\n  c\n', '1. x\n   > q\n', 'p\nlazy\n\n> q\nlazy\n', '# h\n***\n', '~~~ info\n x\n~~~\n', 'a  \nb\\\nc\n']


def run(ctx):
    sz = SIZES[ctx.tier]
    rng = ctx.rng
    try:
        from .. import gen
    except ImportError:
        gen = None
    for i, w in enumerate(PINNED):
        if i % ctx.nshards == ctx.shard:
            check(ctx, w, 'pinned', markers=['-', '1.', '123456789)'])
            check(ctx, w.replace('\n', '\r\n'), 'pinned-crlf', markers=['-', '1.', '123456789)'])
    # deep nesting: the laws hold at every depth the interpreter's recursion limit allows (a parser-side nesting cap would
    # make the innermost container, and any definition in it, disappear when one more level is wrapped around)
    k = 0
    for depth in (40, 99, 100, 101, 128):
        for unit in ('> ', '- ', '1. ', '> - '):
            for tail in ('x\n', '[a]: /u\n', '# h\n\n' + ' ' * 0 + 'x\n'):
                k += 1
                if k % ctx.nshards == ctx.shard and not (tail.startswith('#') and unit != '> '):
                    check(ctx, unit * depth + tail.replace('\n\n', '\n' + '> ' * depth + '\n' + '> ' * depth), 'deep', markers=['-', '1.'])
    for i, ex in enumerate(workloads.spec()):
        if i % ctx.nshards == ctx.shard:
            check(ctx, ex['markdown'], 'spec')
            check(ctx, ex['markdown'].replace('\n', '\r\n'), 'spec-crlf')
    for k in range(sz['n'] // ctx.nshards):
        if ctx.out_of_time():
            break
        if gen is not None and rng.random() < 0.3:
            kind, x = 'generated', gen.generate(rng, profile='full').text
        else:
            kind, x = workloads.mixed(rng, 200)
            x = workloads.clean_lf(x).replace('\t', '  ')
            # bring more inputs into the domain: drop trailing blank lines, empty the whitespace-only lines
            if rng.random() < 0.6:
                x = '\n'.join(l if l.strip() else '' for l in x.split('\n'))
            x = x.rstrip('\n') + '\n'
        if rng.random() < 0.12:
            kind, x = kind + '-crlf', x.replace('\n', '\r\n')       # the same document with CR LF line endings
        check(ctx, x, kind)
        if k < 2:
            ctx.sample({'x': x, 'quoted': quote_embed(x, '> '), 'listed': list_embed(x, '1.', 2)})


def finalize(m, tier):
    inconclusive = []
    held = m.c('held')
    if held.get('quote', 0) < 1000 or held.get('list', 0) < 1000:
        inconclusive.append('too few embeddings compared: %r' % held)
    return {
        'distinct_nontrivial': m.n('nontrivial'),
        'rule': 'every in-domain input x (spec examples, mutations/splices, generated documents, random strings) is parsed plain, with '
                '"> " / ">" before every line, and as the single item of a list (markers + - * N. N) with 1-9 digits, padding 1-4), under '
                'the default and the Html token sets; the canonical child trees and the link-definition tables must be equal. '
                'evaluations = embeddings compared; distinct_nontrivial = distinct in-domain inputs',
        'inconclusive': inconclusive,
        'extra': {'embeddings': m.c('embedding'), 'held': held, 'skipped_by_filter': m.c('skipped_by_filter'), 'ambient_alerts': m.c('ambient')},
    }


def replay(ctx, case):
    ts = case.get('token_set')
    if case['law'] == 'quote':
        r = law_quote(case['x'], case['marker'], ts)
    else:
        r = law_list(case['x'], case['marker'], case['pad'], ts)
    if r:
        ctx.violation(r[0], case['law'] + ': ' + r[1], case, **r[2])


import os as _os  # noqa: E402
if _os.environ.get('VERIF_NO_PINNED'):
    PINNED = []
