"""C02 - all 652 CommonMark 0.30 examples, exhaustively, on every run."""
import collections
import os

from .. import mt, workloads
from ..core import REPO, h64
from ..htmlnorm import normalize

ID = 'C02'
LEVEL = 'exploration'
ASSUMPTIONS = [
    'the vendored corpus /verif/vendor/commonmark-0.30.json (sha256 pinned) is the normative 0.30 example set',
    'comparison = byte equality, else equality after the spec driver\'s normalisation (rtmon.htmlnorm, applied to both sides)',
]


def plan(tier):
    return {'shards': 1, 'budget_s': 120}


def check_example(ctx, ex, form):
    src = ex['markdown']
    source = src if form == 'str' else workloads.lines_of(src)
    case = {'example': ex['example'], 'section': ex['section'], 'form': form, 'markdown': src}
    try:
        got = mt.render(source, 'Html', html_escape_double_quotes=True)
    except Exception as e:  # noqa
        ctx.violation('raises', 'ex%d %s' % (ex['example'], mt.exc_site(e)), case, traceback=mt.tb_text(e))
        return
    if got == ex['html']:
        ctx.count('match', 'byte-identical')
    elif normalize(got) == normalize(ex['html']):
        ctx.count('match', 'equal-after-normalisation')
    else:
        ctx.violation('html-differs', 'example %d (%s)' % (ex['example'], ex['section']), case,
                      expected=ex['html'], observed=got)


def run(ctx):
    examples = workloads.spec()
    for ex in examples:
        for form in ('lines', 'str'):
            ctx.ev()
            check_example(ctx, ex, form)
            ctx.count('section', ex['section'])
        ctx.seen('nontrivial', ex['markdown'])
    for ex in examples[:3] + examples[300:302]:
        ctx.sample({'example': ex['example'], 'section': ex['section'], 'markdown': ex['markdown'], 'expected_html': ex['html']})
    # does the in-tree copy still equal the vendored one? (reported, never decided on)
    try:
        import hashlib
        with open(os.path.join(REPO, 'test', 'specification', 'commonmark.json'), 'rb') as f:
            tree_sha = hashlib.sha256(f.read()).hexdigest()
    except OSError:
        tree_sha = None
    with open(os.path.join(os.path.dirname(__file__), '..', '..', 'vendor', 'commonmark-0.30.json.sha256')) as f:
        want = f.read().split()[0]
    return {'in_tree_corpus_matches_vendored': tree_sha == want, 'corpus_sha256': want}


def finalize(m, tier):
    inconclusive = []
    if m.evaluations < 1304:
        inconclusive.append('only %d of 1304 example renderings ran' % m.evaluations)
    return {
        'distinct_nontrivial': m.n('nontrivial'),
        'rule': 'every one of the 652 spec examples, rendered with HtmlRenderer(html_escape_double_quotes=True) from '
                'both supply forms (list of lines as the repo driver does, and str); distinct = distinct example sources '
                '(a few examples share their Markdown source)',
        'exhaustive': True,
        'inconclusive': inconclusive,
        'extra': {'sections': len(m.c('section')), 'corpus': {k: v for k, v in (m.extra[0] if m.extra else {}).items() if k != 'lines'}},
    }


def replay(ctx, case):
    ex = next(e for e in workloads.spec() if e['example'] == case['example'])
    check_example(ctx, ex, case.get('form', 'lines'))
