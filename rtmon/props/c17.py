"""C17 - LaTeX output keeps its group/environment structure whatever the text says (taint + structure scan of the output)."""
from .. import latexscan, mt, tree, workloads
from ..core import open_findings
from ..latexscan import SENT

ID = 'C17'
LEVEL = 'exploration'
ASSUMPTIONS = [
    '"comes from document text" is made observable by taint sentinels put round every text-carrying token attribute of the parsed tree '
    'before rendering (documented modify-the-AST-then-render use); inputs containing the sentinel code points are not generated',
    'math spans ($...$) are passed through by design and set aside; verbatim regions are \\verb<d>..<d> and the body of lstlisting',
    'inside the URL argument of \\href / \\url the characters & and _ may stay raw (hyperref reads that argument verbatim and they can '
    'neither open nor close a group, an environment, math mode or a comment); % and # must be escaped, every other special is percent-encoded',
    'RuntimeError "Unable to find delimiter for verb macro" is the documented refusal and ends the case as held',
]

VERBATIM_PARENTS = ('InlineCode', 'CodeFence', 'BlockCode')


def taint(doc):
    n = 0
    for tok, parent, depth in tree.walk(doc):
        name = type(tok).__name__
        if name == 'RawText':
            pname = type(parent).__name__ if parent is not None else ''
            kind = 'V' if pname in VERBATIM_PARENTS else 'T'
            a, b = SENT[kind]
            tok.content = a + tok.content + b
            n += 1
        elif name == 'Math':
            a, b = SENT['M']
            tok.content = a + tok.content + b
            n += 1
        elif name == 'Image':
            a, b = SENT['S']
            tok.src = a + tok.src + b
            n += 1
        if name == 'CodeFence' and tok.language:
            a, b = SENT['L']
            tok.language = a + tok.language + b
            n += 1
    return n


ESCAPE_SHAPES = ('a %s b\n', '# h %s\n', '*e %s e*\n', '| %s |\n|---|\n| x %s |\n', '[t %s t](/u)\n', '> - q %s\n')


def check_escape_pair(ctx, shape, ch):
    ctx.ev()
    esc_text, ref_text = shape.replace('%s', '\\' + ch), shape.replace('%s', '&#%d;' % ord(ch))
    try:
        a, b = mt.render(esc_text, 'LaTeX'), mt.render(ref_text, 'LaTeX')
    except Exception as e:  # noqa
        ctx.count('ambient', 'C01:' + mt.exc_site(e))
        return
    ctx.count('scan', 'escape-vs-reference pairs')
    if a != b:
        ctx.violation('escape-differs-from-reference', 'char=%s' % ch, {'kind': 'escape-pair', 'shape': shape, 'ch': ch, 'text': esc_text},
                      problem='backslash escape and numeric reference of %r render differently' % ch, observed=a, reference_form=b)


def check(ctx, text, source):
    ctx.ev()
    case = {'text': text, 'source': source}
    if any(c in text for c in latexscan.ALL_SENTINELS):
        ctx.count('skipped_by_filter', 'contains sentinel code point')
        return
    cls = mt.renderer_class('LaTeX')
    try:
        try:
            with cls() as r:
                doc = mt.Document(text)
                ntaint = taint(doc)
                out = r.render(doc)
        finally:
            mt.reset()
    except RuntimeError as e:
        if 'Unable to find delimiter for verb macro' in str(e):
            ctx.count('outcome', 'documented refusal: no \\verb delimiter')
            return
        ctx.count('ambient', 'C01:' + mt.exc_site(e))
        return
    except Exception as e:  # noqa
        ctx.count('ambient', 'C01:' + mt.exc_site(e))
        return
    # The sentinels must be transparent: the same document rendered WITHOUT them has to give the same output once the
    # sentinels are stripped.  A difference means that escaping depends on more than the token's own content (e.g. a
    # memo keyed on the text only) - something the tainted rendering alone cannot see, because taint makes texts unique.
    try:
        try:
            with cls() as r2:
                plain_out = r2.render(mt.Document(text))
        finally:
            mt.reset()
    except Exception as e:  # noqa
        plain_out = None
    if plain_out is not None:
        stripped = out
        for ch in latexscan.ALL_SENTINELS:
            stripped = stripped.replace(ch, '')
        if stripped != plain_out:
            k = next((i for i, (a, b) in enumerate(zip(stripped, plain_out)) if a != b), min(len(stripped), len(plain_out)))
            seg = plain_out[max(0, k - 1):k + 12]
            ch = plain_out[k:k + 1]
            if ch in '$#{}&_%^\\' and plain_out[k - 1:k] != '\\':
                ctx.violation('unescaped-special-from-text', 'only without taint: char=%s (escaping depends on context)' % ch, case,
                              observed=plain_out, with_taint_stripped=stripped, near=seg)
                return
            ctx.count('outcome', 'taint-not-transparent')
        else:
            ctx.count('outcome', 'taint transparent')
    stats = {}
    try:
        latexscan.scan(out, stats)
    except latexscan.Problem as p:
        ctx.violation(p.clause, p.key, case, problem=p.msg, observed=out)
        return
    finally:
        for k, v in stats.items():
            ctx.count('scan', k, v)
    ctx.count('outcome', 'structure intact')
    if any(k.startswith('special-in-') for k in stats):
        ctx.seen('nontrivial', text)


FINDING_KEYS = {
    'C17-image-src-raw': ('unescaped-special-from-text', 'origin=Image.src'),
    'C17-fence-language-raw': ('unescaped-special-from-text', 'origin=CodeFence.language'),
    'C17-lstlisting-terminator': ('verbatim-terminator-inside-text', '\\end{lstlisting} inside code block'),
}


def classify(clause, key, case, detail):
    """Findings are keyed by call site: oracle clause + origin of the tainted region (never by the payload)."""
    open_ids = [f['id'] for f in open_findings(ID)]
    for fid, (cl, prefix) in FINDING_KEYS.items():
        if fid in open_ids and clause == cl and key.startswith(prefix):
            return fid
    return None


def pinned_witness(finding):
    class P:
        bad = []
        counters = {}

        def ev(self, n=1):
            pass

        def count(self, *a, **k):
            pass

        def seen(self, *a, **k):
            return True

        def violation(self, clause, key, case, **d):
            self.bad.append((clause, key))
    p = P()
    p.bad = []
    check(p, finding['pinned_witness']['text'], 'pinned')
    cl, prefix = FINDING_KEYS[finding['id']]
    return any(c == cl and k.startswith(prefix) for c, k in p.bad)


def plan(tier):
    if tier == 'quick':
        return {'shards': 8, 'budget_s': 60}
    return {'shards': 16, 'budget_s': 600}


SIZES = {'quick': dict(mixed=14000, payload=14000, gen=2500), 'thorough': dict(mixed=300000, payload=250000, gen=60000)}
PINNED = ['\\\\{\n', 'a\\b c\\\n', '![i](s}s)\n', '![i](a_b%c#d.png)\n', '```py]{\nx\n```\n', '```\n\\end{lstlisting}\n\\input{/etc/passwd}\n```\n',
          '`a|b!c"d\'e=f+g`\n', '$x_1^2$ and 100% of #1 {braces} a_b ^ &\n', '| a&b | c_d |\n|---|---|\n| {x} | 50% |\n', '[l](http://x/a_b?c=d&e=f#g%20h)\n',
          '<http://x/{y}$z>\n', '# h_1 $\n\n> q {\n\n- i }\n', 'a\\\\b \\{ \\} \\\\\n', '~~s_t~~ **b{** *i}*\n', '\\begin{document} \\end{itemize}\n', 'x^y x^{y} \\^\n']


def run(ctx):
    sz = SIZES[ctx.tier]
    rng = ctx.rng
    for i, w in enumerate(PINNED):
        if i % ctx.nshards == ctx.shard:
            check(ctx, w, 'pinned')
    for i, ex in enumerate(workloads.spec()):
        if i % ctx.nshards == ctx.shard:
            check(ctx, ex['markdown'], 'spec')
    for i, (name, text) in enumerate(workloads.sample_files()):
        if i % ctx.nshards == ctx.shard:
            check(ctx, text, 'sample:' + name)
    try:
        from .. import gen
    except ImportError:
        gen = None
    # a character written as a backslash escape and the same character written as a numeric reference are the same text:
    # the two renderings must be identical (decided without taint - sentinels make an escaped character three characters long)
    import string as _string
    k = 0
    for ch in _string.punctuation:
        for shape in ESCAPE_SHAPES:
            k += 1
            if k % ctx.nshards == ctx.shard:
                check_escape_pair(ctx, shape, ch)
    # \verb needs a delimiter that does not occur in the code span: code spans that use up all punctuation characters but one
    # (and, with the digits, all but one digit) walk the renderer's whole list of candidates - every choice must be a valid one
    import string
    k = 0
    for pool, keep in ((string.punctuation, ''), (string.punctuation + string.digits, ''), (string.punctuation, string.digits)):
        for c in pool:
            k += 1
            if k % ctx.nshards != ctx.shard:
                continue
            content = ''.join(x for x in pool if x != c and x not in keep)
            fence = '``' if '`' in content and '``' not in content else '`'
            check(ctx, 'a %s %s %s b\n' % (fence, content, fence), 'verb-delimiter-ladder')
    for k in range(sz['payload'] // ctx.nshards):
        if ctx.out_of_time():
            break
        text = latex_payload_doc(rng)
        check(ctx, text, 'payload')
        if k < 2:
            ctx.sample({'source': 'payload', 'text': text})
    if gen is not None:
        for k in range(sz['gen'] // ctx.nshards):
            if ctx.out_of_time():
                break
            check(ctx, gen.generate(rng, profile='full').text, 'generated')
    for k in range(sz['mixed'] // ctx.nshards):
        if ctx.out_of_time():
            break
        kind, text = workloads.mixed(rng)
        check(ctx, workloads.clean_lf(text), kind)


LATEX_ATOMS = ['$', '#', '{', '}', '&', '_', '%', '^', '\\', '~', '\\\\', '\\{', '\\}', '\\$', '$$', '{}', '}{', '%\n', ' ', 'a', 'x_1', 'e^x', '50%', '#1', 'A&B',
               '\\end{document}', '\\end{lstlisting}', '\\begin{x}', '\\input{f}', '\\verb|x|', '|', '!', '"', "'", '=', '+', ']', '[', '`', '\n',
               # compatibility forms of the special characters (full-width, small, vertical): ordinary text, whatever normalisation would do
               '\uff04', '\uff03', '\uff5b', '\uff5d', '\uff06', '\uff3f', '\uff05', '\uff3e', '\uff3c', '\ufe5b', '\ufe5c', '\ufe5f', '\ufe60', '\ufe69', '\ufe6a', '\ufe68',
               '\uff3cend\uff5bdocument\uff5d',
               # URL-ish pieces: text that is already percent-encoded, query strings, fragments
               '%20', '%7B', '%5C', 'a%20b', '?q=1&r=2', '#frag', '/p/', 'http://h/']


def latex_payload_doc(rng):
    def p():
        return ''.join(rng.choice(LATEX_ATOMS) for _ in range(rng.randint(1, 6)))
    t = rng.choice(workloads.TEMPLATES + ['{p}', '{p} {q}', '# {p}', '| {p} | {q} |\n|---|---|\n| {q} | {p} |', '```{p}\n{q}\n```', '`{p}`', '    {p}\n    {q}',
                                          '![a]({p})', '[a]({p})', '<http://x/{p}>', '[a](<{p}>)', '[a](/my%20docs/{p})', '[r]: /x%20y{p}\n\n[r] ![r]', '<http://h/a%20b{p}>', '[]({p})', '[][r]\n\n[r]: {p}', '$ {p} $', '- {p}\n  - {q}', '> {p}\n> {q}',
                                          # the same string verbatim and as text (context-dependent escaping)
                                          '`{p}` and {p}', '{p} then `{p}` then **{p}**', '    {p}\n\n{p}', '```\n{p}\n```\n\n*{p}* [{p}](/u)', '| `{p}` | {p} |\n|---|---|'])
    return t.replace('{p}', p()).replace('{q}', p()) + '\n'


def finalize(m, tier):
    inconclusive = []
    scan = m.c('scan')
    if m.c('outcome').get('taint-not-transparent', 0):
        inconclusive.append('%d rendering(s) differed with and without taint for a reason other than an unescaped special character'
                            % m.c('outcome')['taint-not-transparent'])
    for need in ('tainted:RawText', 'url-arguments', 'verbatim:verb', 'verbatim:lstlisting', 'env:tabular', 'env:itemize', 'env:displayquote'):
        if scan.get(need, 0) < 20:
            inconclusive.append('%s observed only %d times' % (need, scan.get(need, 0)))
    return {
        'distinct_nontrivial': m.n('nontrivial'),
        'rule': 'each input (spec examples, sample files, LaTeX-special-rich payload documents, generated documents, mutated/random strings) is '
                'parsed under the LaTeX token set, every text-carrying attribute is tainted, the document is rendered and the output is scanned: '
                'group balance, \\begin/\\end nesting, closed control-word vocabulary, escapes inside tainted regions, terminators of verbatim '
                'regions, URL arguments. distinct_nontrivial = distinct inputs whose tainted regions contained at least one LaTeX-special character',
        'inconclusive': inconclusive,
        'extra': {'scan_events': scan, 'outcomes': m.c('outcome'), 'ambient_alerts': m.c('ambient'), 'skipped_by_filter': m.c('skipped_by_filter')},
    }


def replay(ctx, case):
    if case.get('kind') == 'escape-pair':
        check_escape_pair(ctx, case['shape'], case['ch'])
    else:
        check(ctx, case['text'], case.get('source', 'replay'))


import os as _os  # noqa: E402
if _os.environ.get('VERIF_NO_PINNED'):
    PINNED = []
