"""C08 - HTML output is well-formed; document text cannot inject markup (invariant on the output + tag skeleton)."""
import itertools
import json

from .. import htmlgrammar, mt, tree, workloads

ID = 'C08'
LEVEL = 'exploration'
ASSUMPTIONS = [
    'the output language is the grammar in rtmon/htmlgrammar.py (closed tag/attribute vocabulary of the HTML renderer)',
    '"verbatim content of raw HTML set aside": the content of every HtmlBlock/HtmlSpan token is bracketed with two private-use '
    'sentinels in the parsed tree before rendering (documented modify-the-AST-then-render use) and the bracketed regions are cut '
    'from the output; inputs containing the sentinels are not generated',
    'attribute rule is exactly the statement\'s: no double quote and no angle bracket inside a value (a bare & is not flagged)',
    'raw HTML that ends up inside an attribute value (inline HTML in an image description) is not "set aside": it must obey the attribute rule',
    'inputs with lone surrogates (text decoded with surrogateescape) are included; where the renderer refuses them with UnicodeEncodeError '
    'there is no output to judge (counted as ambient; lone surrogates are not Unicode scalar values, so C01 does not cover them)',
]

S_OPEN, S_CLOSE = '\ue000', '\ue001'

OPTS = [dict(html_escape_double_quotes=a, html_escape_single_quotes=b, process_html_tokens=c)
        for c in (False, True) for a in (False, True) for b in (False, True)]

from ..workloads import PAYLOAD_ATOMS, CLASSIC, TEMPLATES, payload, payload_doc  # noqa: E402


def bracket_raw(doc):
    n = 0
    for tok, parent, depth in tree.walk(doc):
        name = type(tok).__name__
        if name == 'HtmlSpan':
            tok.content = S_OPEN + tok.content + S_CLOSE
            n += 1
        elif name == 'HtmlBlock':
            raw = tok.children[0]
            raw.content = S_OPEN + raw.content + S_CLOSE
            n += 1
    return n


def cut_raw(out):
    res = []
    i = 0
    cuts = 0
    while True:
        a = out.find(S_OPEN, i)
        if a < 0:
            res.append(out[i:])
            break
        b = out.find(S_CLOSE, a)
        if b < 0:
            return None, cuts
        if S_OPEN in out[a + 1:b]:
            return None, cuts
        res.append(out[i:a])
        before = ''.join(res)
        if before.rfind('<') > before.rfind('>'):
            # the raw content sits inside a tag, i.e. in an attribute value (image description): nothing there is
            # "verbatim raw HTML" - it stays and must obey the attribute rule like any other text
            res.append(out[a + 1:b])
        i = b + 1
        cuts += 1
    s = ''.join(res)
    if S_CLOSE in s:
        return None, cuts
    return s, cuts


def check(ctx, text, opts, source):
    ctx.ev()
    case = {'text': text, 'opts': opts, 'source': source}
    cls = mt.renderer_class('Html')
    try:
        try:
            with cls(**opts) as r:
                doc = mt.Document(text)
                skel = tree.skeleton(doc)
                nraw = bracket_raw(doc) if opts.get('process_html_tokens', True) else 0
                out = r.render(doc)
        finally:
            mt.reset()
    except Exception as e:  # noqa  (totality is C01's business; reported as ambient, not decided here)
        ctx.count('ambient', 'C01:' + mt.exc_site(e))
        return
    if nraw:
        out2, cuts = cut_raw(out)
        ctx.count('raw', 'regions-cut', cuts)
        if out2 is None or cuts != nraw:
            ctx.violation('raw-html-regions-not-verbatim', 'sentinels unbalanced or lost (%d of %d)' % (cuts, nraw), case, observed=out)
            return
    else:
        out2 = out
    seq = []

    def on_tag(kind, name, attrs):
        seq.append(('/' if kind == 'close' else '') + name)
        ctx.count('tags', name)
        for k, v in attrs:
            ctx.count('attrs', '%s@%s' % (k, name))
            for ch in '\'&\\`(){}= ':
                if ch in v:
                    ctx.count('attr-payload-chars', '%s@%s:%r' % (k, name, ch))
    try:
        htmlgrammar.scan(out2, on_tag)
    except htmlgrammar.Problem as p:
        ctx.violation(p.clause, locate(out2, p.pos), case, observed=out, problem=p.msg)
        return
    if any(s.startswith('?') for s in skel):
        ctx.count('skeleton', 'skipped-unknown-token')
    elif seq != skel:
        k = next((i for i, (a, b) in enumerate(zip(seq, skel)) if a != b), min(len(seq), len(skel)))
        ctx.violation('tags-not-from-tree', 'output has %s where the token tree has %s'
                      % (seq[k] if k < len(seq) else 'END', skel[k] if k < len(skel) else 'END'), case,
                      observed=out, output_tags=' '.join(seq[max(0, k - 5):k + 5]), tree_tags=' '.join(skel[max(0, k - 5):k + 5]))
        return
    else:
        ctx.count('skeleton', 'equal')
    if seq and any(c in text for c in '"\'<>&'):
        ctx.seen('nontrivial', text)


def locate(out, pos):
    """Mechanism key: the syntactic place of the output where the grammar broke
    (tag name + attribute), never the payload itself."""
    import re
    if out[pos:pos + 1] == '<':
        m = re.match(r'</?([A-Za-z][A-Za-z0-9]*)', out[pos:])
        if m:
            name = m.group(1)
            i = pos + m.end()
            last = None
            while True:
                a = re.match(r' ([A-Za-z]+)="', out[i:])
                if not a:
                    break
                last = a.group(1)
                v = re.match(r'[^"<>]*"', out[i + a.end():])
                if not v:
                    break
                i += a.end() + v.end()
            return 'malformed <%s> tag at/after attribute %s' % (name, last)
        return 'bare < in text'
    before = out[:pos]
    gt = before.rfind('>')
    ctxt = before[before.rfind('<', 0, gt + 1):gt + 1] if gt >= 0 else 'start'
    ctxt = re.sub(r'="[^"]*"', '=".."', ctxt)
    return 'in text after %s' % ctxt[:40]


def helper_sweep(ctx, lo, hi):
    """escape_html_text (4 quote settings) and escape_url over every scalar value in [lo, hi)."""
    import html as _html
    cls = mt.renderer_class('Html')
    rs = []
    for dq in (False, True):
        for sq in (False, True):
            r = cls(html_escape_double_quotes=dq, html_escape_single_quotes=sq)
            mt.reset()
            rs.append((dq, sq, r))
    n = 0
    for cp in range(lo, hi):
        if 0xD800 <= cp <= 0xDFFF:
            continue
        c = chr(cp)
        for dq, sq, r in rs:
            out = r.escape_html_text(c)
            bad = ('<' in out or '>' in out or (dq and '"' in out) or (sq and "'" in out)
                   or ('&' in out and out not in htmlgrammar.ENTITIES) or _html.unescape(out) != c)
            if bad:
                ctx.violation('escape_html_text', 'U+%04X dq=%s sq=%s' % (cp, dq, sq), {'helper': 'text', 'cp': cp, 'dq': dq, 'sq': sq}, observed=out)
        u = cls.escape_url(c)
        if '"' in u or '<' in u or '>' in u:
            ctx.violation('escape_url', 'U+%04X' % cp, {'helper': 'url', 'cp': cp}, observed=u)
        n += 1
    ctx.count('helpers', 'code points through escape_html_text x4 and escape_url', n)
    ctx.ev(n)
    return rs


def helper_random(ctx, n):
    import html as _html
    rng = ctx.rng
    cls = mt.renderer_class('Html')
    r = cls(html_escape_double_quotes=True, html_escape_single_quotes=True)
    mt.reset()
    pool = PAYLOAD_ATOMS + ['é', '中', '\U0001f600', '\x7f', '\x01', ' ', '&amp', '&#', ';', '&', '&&', '<<', '>>']
    for _ in range(n):
        s = ''.join(rng.choice(pool) for _ in range(rng.randint(0, 12)))
        out = r.escape_html_text(s)
        try:
            htmlgrammar.scan(out)
            ok = '"' not in out and "'" not in out and _html.unescape(out) == s
        except htmlgrammar.Problem:
            ok = False
        if not ok:
            ctx.violation('escape_html_text', 'concatenation', {'helper': 'text-concat', 's': s}, observed=out)
        u = cls.escape_url(s)
        if '"' in u or '<' in u or '>' in u:
            ctx.violation('escape_url', 'concatenation', {'helper': 'url-concat', 's': s}, observed=u)
        ctx.ev()
    ctx.count('helpers', 'random concatenations', n)


def plan(tier):
    if tier == 'quick':
        return {'shards': 8, 'budget_s': 50}
    return {'shards': 16, 'budget_s': 600}


SIZES = {'quick': dict(payload=30000, mixed=12000, gen=2000, concat=40000), 'thorough': dict(payload=200000, mixed=80000, gen=20000, concat=400000)}
PINNED = ['![a](x"onerror="alert(1))\n', '![a](<x"y>)\n', '<http://a@b/"x>\n', '<a"b@c.d>\n', '[t](<x"y>)\n', '```a"b\nc\n```\n',
          '[a](u "t\\"<>&")\n', '![a"<b>&](u)\n', '- a\n  > b\n- c\n', '<a&b@c.d>\n']


def run(ctx):
    sz = SIZES[ctx.tier]
    rng = ctx.rng
    # helpers, exhaustive over the scalar values (split over the shards)
    total = 0x110000
    step = (total + ctx.nshards - 1) // ctx.nshards
    helper_sweep(ctx, ctx.shard * step, min(total, (ctx.shard + 1) * step))
    helper_random(ctx, sz['concat'] // ctx.nshards)
    # pinned + spec under all 8 option sets
    for i, w in enumerate(PINNED):
        if i % ctx.nshards == ctx.shard:
            for o in OPTS:
                check(ctx, w, o, 'pinned')
    for i, ex in enumerate(workloads.spec()):
        if i % ctx.nshards == ctx.shard:
            for o in OPTS:
                check(ctx, ex['markdown'], o, 'spec')
    try:
        from .. import gen
    except ImportError:
        gen = None
    for k in range(sz['payload'] // ctx.nshards):
        if ctx.out_of_time():
            break
        text = payload_doc(rng, surrogates=True)
        for o in rng.sample(OPTS, 3):
            check(ctx, text, o, 'payload')
        if k < 2:
            ctx.sample({'source': 'payload', 'text': text})
    if gen is not None:
        for k in range(sz['gen'] // ctx.nshards):
            if ctx.out_of_time():
                break
            text = gen.generate(rng, profile='full').text
            for o in rng.sample(OPTS, 2):
                check(ctx, text, o, 'generated')
    for k in range(sz['mixed'] // ctx.nshards):
        if ctx.out_of_time():
            break
        kind, text = workloads.mixed(rng)
        text = workloads.clean_lf(text).replace(S_OPEN, '').replace(S_CLOSE, '')
        for o in rng.sample(OPTS, 2):
            check(ctx, text, o, kind)


def finalize(m, tier):
    inconclusive = []
    h = m.c('helpers')
    if h.get('code points through escape_html_text x4 and escape_url', 0) != 0x110000 - 2048:
        inconclusive.append('helper sweep covered %s code points, expected %d' % (h, 0x110000 - 2048))
    if m.c('raw').get('regions-cut', 0) < 50:
        inconclusive.append('fewer than 50 raw-HTML regions were set aside')
    if m.c('skeleton').get('equal', 0) < 1000:
        inconclusive.append('tag-skeleton oracle evaluated on fewer than 1000 outputs')
    return {
        'distinct_nontrivial': m.n('nontrivial'),
        'rule': 'every rendering (input x one of the 8 option sets) is parsed by the strict output grammar and its tag sequence is '
                'compared with the tag skeleton of the token tree; inputs: 652 spec examples x 8 option sets, payload documents '
                '(quote/bracket/ampersand-rich strings placed in destinations, titles, alt texts, info strings, e-mail local parts, '
                'table cells ...), generated documents, mutated/random strings. Helpers: escape_html_text x 4 quote settings and '
                'escape_url over every Unicode scalar value (exhaustive) plus random concatenations. distinct_nontrivial = distinct '
                'input texts that contain one of " \' < > & and produced at least one tag',
        'exhaustive': False,
        'inconclusive': inconclusive,
        'extra': {'helper_sweep_exhaustive': True, 'tags_seen': m.c('tags'), 'attributes_seen': m.c('attrs'),
                  'payload_chars_that_reached_attributes': m.c('attr-payload-chars'), 'ambient_alerts': m.c('ambient')},
    }


def replay(ctx, case):
    if 'helper' in case:
        if 'cp' in case:
            helper_sweep(ctx, case['cp'], case['cp'] + 1)
        else:
            import html as _html
            cls = mt.renderer_class('Html')
            r = cls(html_escape_double_quotes=True, html_escape_single_quotes=True)
            mt.reset()
            s = case['s']
            out = r.escape_html_text(s)
            u = cls.escape_url(s)
            if '"' in u or '<' in u or '>' in u:
                ctx.violation('escape_url', 'concatenation', case, observed=u)
            if '<' in out or '>' in out or '"' in out or "'" in out or _html.unescape(out) != s:
                ctx.violation('escape_html_text', 'concatenation', case, observed=out)
        return
    check(ctx, case['text'], case['opts'], case.get('source', 'replay'))


import os as _os  # noqa: E402
if _os.environ.get('VERIF_NO_PINNED'):
    PINNED = []
