"""C15 - the same text gives the same result however it is supplied (str / list / file object / CLI; final newline or not)."""
import io
import os
import zlib
import shutil
import subprocess
import sys
import tempfile

import mistletoe

from .. import mt, workloads
from ..core import HOME, REPO

ID = 'C15'
LEVEL = 'exploration'
ASSUMPTIONS = [
    'inputs use \\n as their only line terminator (no carriage return; form feed, NEL, U+2028 and the other characters on which only '
    'str.splitlines splits are ordinary characters and are part of the alphabet) and are valid UTF-8 text',
    'CLI runs use the repository at VERIF_REPO via PYTHONPATH, with -X dev -W error::ResourceWarning (only that category is an error)',
]

RENDERERS = ['Html', 'Markdown', 'LaTeX', 'Ast', 'Jira']
CLI_PATH = {
    'Html': 'mistletoe.HtmlRenderer', 'Markdown': 'mistletoe.markdown_renderer.MarkdownRenderer',
    'LaTeX': 'mistletoe.latex_renderer.LaTeXRenderer', 'Ast': 'mistletoe.ast_renderer.AstRenderer',
    'Jira': 'mistletoe.contrib.jira_renderer.JiraRenderer',
}


def md(source, rname):
    try:
        return mistletoe.markdown(source, mt.renderer_class(rname))
    finally:
        mt.reset()


def inproc_forms(text, tmpdir):
    """Yields (form name, thunk) for every in-process supply form of ``text``."""
    yield 'list', lambda: workloads.lines_of(text)
    yield 'list-no-eol', lambda: workloads.lines_of(text, keepends=False)
    yield 'stringio', lambda: io.StringIO(text)
    yield 'iter', lambda: iter(workloads.lines_of(text))

    def real_file():
        path = os.path.join(tmpdir, 'f.md')
        with open(path, 'w', encoding='utf-8', newline='') as f:
            f.write(text)
        return open(path, 'r', encoding='utf-8')
    yield 'file', real_file


def check_inproc(ctx, text, rname, source, tmpdir):
    case = {'text': text, 'renderer': rname, 'source': source}
    try:
        ref = md(text, rname)
    except Exception as e:  # noqa
        ctx.count('ambient', 'C01:' + mt.exc_site(e))
        return None
    variants = [('', text)]
    if text.endswith('\n') and not text.endswith('\n\n') and text != '\n':
        variants.append(('-nofinalnl', text[:-1]))
    elif not text.endswith('\n') and text:
        variants.append(('+finalnl', text + '\n'))
    for vtag, vtext in variants:
        if vtag:
            ctx.ev()
            try:
                out = md(vtext, rname)
            except Exception as e:  # noqa
                ctx.violation('form-raises', 'str%s %s' % (vtag, mt.exc_site(e)), dict(case, form='str' + vtag), traceback=mt.tb_text(e))
                continue
            if out != ref:
                ctx.violation('output-differs', 'str%s renderer=%s' % (vtag, rname), dict(case, form='str' + vtag), expected=ref, observed=out)
            else:
                ctx.count('equal', 'str' + vtag)
        for fname, thunk in inproc_forms(vtext, tmpdir):
            if fname == 'file' and ctx.rng.random() > 0.25:
                continue
            ctx.ev()
            src = None
            try:
                src = thunk()
                out = md(src, rname)
            except Exception as e:  # noqa
                ctx.violation('form-raises', '%s%s %s' % (fname, vtag, mt.exc_site(e)), dict(case, form=fname + vtag), traceback=mt.tb_text(e))
                continue
            finally:
                if hasattr(src, 'close'):
                    src.close()
            if out != ref:
                ctx.violation('output-differs', '%s%s renderer=%s' % (fname, vtag, rname), dict(case, form=fname + vtag), expected=ref, observed=out)
            else:
                ctx.count('equal', fname + vtag)
    if len(ref) > 10:
        ctx.seen('nontrivial', [text, rname])
    return ref


def run_cli(paths, rname, cwd, hashseed=1):
    env = dict(os.environ)
    env['PYTHONPATH'] = REPO
    env['PYTHONIOENCODING'] = 'utf-8'
    # a command-line run is another process with another string-hash seed: output that follows set / dict-of-hash order shows
    # (the harness itself runs with PYTHONHASHSEED=0; the seed of a run is derived from the texts, so a case replays)
    env['PYTHONHASHSEED'] = str(hashseed)
    cmd = [sys.executable, '-X', 'dev', '-W', 'error::ResourceWarning', '-m', 'mistletoe', '-r', CLI_PATH[rname]] + paths
    p = subprocess.run(cmd, capture_output=True, env=env, cwd=cwd, timeout=120)
    return p.returncode, p.stdout, p.stderr


def run_cli_inprocess(paths, rname, cwd, hashseed=None):
    """mistletoe.cli.main in this process, stdout captured at the byte level (the CLI writes to sys.stdout.buffer)."""
    import io
    from mistletoe import cli
    old_out, old_cwd = sys.stdout, os.getcwd()
    buf = io.BytesIO()
    sys.stdout = io.TextIOWrapper(buf, encoding='utf-8', write_through=True)
    try:
        os.chdir(cwd)
        argv = ['-r', CLI_PATH[rname]] + paths
        if len(paths) % 2:
            # the `python -m mistletoe` entry function, with sys.argv as the interpreter would set it
            from mistletoe import __main__ as entry
            old_argv = sys.argv
            sys.argv = ['mistletoe'] + argv
            try:
                entry.main()
            finally:
                sys.argv = old_argv
        else:
            cli.main(argv)
        sys.stdout.flush()
        return 0, buf.getvalue(), b''
    except SystemExit as e:
        return (e.code if isinstance(e.code, int) else 1), buf.getvalue(), str(e.code).encode()
    finally:
        sys.stdout = old_out
        os.chdir(old_cwd)
        mt.reset()


def check_cli(ctx, texts, rname, source, tmpdir, repeat=False, inprocess=False):
    """texts: list of document texts -> one CLI invocation over that many files."""
    ctx.ev()
    names = []
    for i, t in enumerate(texts):
        path = os.path.join(tmpdir, 'in%d.md' % i)
        with open(path, 'wb') as f:
            f.write(t.encode('utf-8'))
        names.append('in%d.md' % i)
    order = list(range(len(texts)))
    if repeat and len(texts) > 1:
        order.append(0)
        order.insert(1, len(texts) - 1)
    case = {'texts': [texts[i] for i in order], 'renderer': rname, 'source': source, 'form': 'cli', 'repeat': repeat}
    try:
        expected = ''.join(md(texts[i], rname) for i in order)
    except Exception as e:  # noqa
        ctx.count('ambient', 'C01:' + mt.exc_site(e))
        return
    try:
        rc, out, err = (run_cli_inprocess if inprocess else run_cli)([names[i] for i in order], rname, tmpdir, 1 + zlib.crc32(''.join(texts).encode('utf-8', 'replace')) % 4000)
    except subprocess.TimeoutExpired:
        ctx.note('a CLI invocation hit the 120 s wall-clock watchdog (inconclusive for that case)')
        ctx.count('cli', 'watchdog')
        return
    if rc != 0 or err.strip():
        ctx.violation('cli-fails-or-warns', 'rc=%s stderr=%s' % (rc, err.decode('utf-8', 'replace').strip().splitlines()[-1][:80] if err.strip() else ''),
                      case, stderr=err.decode('utf-8', 'replace')[-1500:])
        return
    try:
        got = out.decode('utf-8')
    except UnicodeDecodeError as e:
        ctx.violation('cli-output-not-utf8', str(e)[:60], case)
        return
    if got != expected:
        ctx.violation('output-differs', 'cli files=%d%s renderer=%s' % (len(order), ' (repeated names)' if repeat else '', rname), case,
                      expected=expected, observed=got)
    else:
        ctx.count('equal', 'cli%s x%d%s' % ('(in-process)' if inprocess else '', len(order) if len(order) < 3 else 3, '+' if len(order) >= 3 else ''))
        ctx.count('cli', 'in-process invocations' if inprocess else 'invocations')
        ctx.count('cli', 'files', len(order))


# the same piece of text in documents that give it different meanings (a reference defined in one file, not or differently in
# another; a table cell, a heading, plain inline text): one invocation over several files against the single-file runs, each of
# which is a process of its own - so what one file leaves behind for the next (anything kept per text) shows on either side
_T = '| [r] | x ![i][r] |\n|---|---|\n| [r][] | [t][r] |\n'
CONTEXT_FILES = {
    'table-def-a': '[r]: /a\n\n' + _T, 'table-no-def': _T, 'table-def-c': '[r]: /c "t"\n\n' + _T,
    'inline-def-a': '[r]: /a\n\n# [r] h\n\n[r] and [t][r]\n\n- [r]\n', 'inline-no-def': '# [r] h\n\n[r] and [t][r]\n\n- [r]\n',
    'inline-def-c': '[R]: </c> (t)\n\n# [r] h\n\n[r] and [t][r]\n\n- [r]\n',
}
CONTEXT_ORDERS = [('table-def-a', 'table-no-def'), ('table-no-def', 'table-def-a'), ('table-def-a', 'table-def-c', 'table-no-def', 'table-def-a'),
                  ('inline-def-a', 'inline-no-def'), ('inline-no-def', 'inline-def-c', 'inline-def-a'), ('table-def-c', 'inline-no-def', 'table-no-def')]


def check_cli_context(ctx, order, rname, tmpdir):
    ctx.ev()
    case = {'form': 'cli-context', 'order': list(order), 'renderer': rname}
    for name, t in CONTEXT_FILES.items():
        with open(os.path.join(tmpdir, name + '.md'), 'wb') as f:
            f.write(t.encode('utf-8'))
    try:
        singles = {}
        for name in sorted(set(order)):
            rc, out, err = run_cli([name + '.md'], rname, tmpdir, 7)
            if rc != 0 or err.strip():
                ctx.violation('cli-fails-or-warns', 'rc=%s (single file %s)' % (rc, name), case, stderr=err.decode('utf-8', 'replace')[-1500:])
                return
            singles[name] = out
        rc, out, err = run_cli([n + '.md' for n in order], rname, tmpdir, 7)
    except subprocess.TimeoutExpired:
        ctx.count('cli', 'watchdog')
        return
    if rc != 0 or err.strip():
        ctx.violation('cli-fails-or-warns', 'rc=%s (files %s)' % (rc, ' '.join(order)), case, stderr=err.decode('utf-8', 'replace')[-1500:])
        return
    expected = b''.join(singles[n] for n in order)
    if out != expected:
        ctx.violation('output-differs', 'cli files=%d (same text, other definitions) renderer=%s' % (len(order), rname), case,
                      expected=expected.decode('utf-8', 'replace'), observed=out.decode('utf-8', 'replace'))
    else:
        ctx.count('equal', 'cli several files vs single-file processes')
        ctx.count('cli', 'invocations', 1 + len(singles))


def plan(tier):
    if tier == 'quick':
        return {'shards': 8, 'budget_s': 60}
    return {'shards': 16, 'budget_s': 600}


SIZES = {'quick': dict(mixed=4000, gen=800, cli=200, cli_multi=56), 'thorough': dict(mixed=120000, gen=30000, cli=5000, cli_multi=1200)}
PINNED = ['a\n\n', 'a\n\n\n', '```\ncode\n\n\n', '    code  ', '<div>\nx  ', '~~~\nx\t', 'text   ', '* * *', 'a\n\n    b\n\n', '> q\n>\n',
          '- a\n\n', 'é ß 中\n', '| a |\n|---|\n| b |', '[a]: /u\n\n[a]', '\n\na', 'a  \nb\\\nc']


def pick(rng, gen):
    if gen is not None and rng.random() < 0.2:
        kind, text = 'generated', gen.generate(rng, profile='full').text
    else:
        kind, text = workloads.mixed(rng)
    if rng.random() < 0.06:
        # characters that text-file tooling likes to treat specially at the very start of a file
        text = rng.choice(('\ufeff', '\u200b', '\xa0', '\ufeff\ufeff', '\u2060')) + text
        kind += '+odd-first-char'
    if rng.random() < 0.05 and text:
        # characters a supply path might want to "clean": NUL, other C0 controls, DEL, a private-use and an unassigned code point
        pos = rng.randrange(len(text) + 1)
        text = text[:pos] + rng.choice(('\x00', '\x00', '\x01', '\x1b', '\x7f', '\x08', '\ue123', '\U000e0001', '\ufffe')) + text[pos:]
        kind += '+control-char'
    return kind, text


FIRST_USE = ['这是**“重要”**。\n', 'so-called*“experts”* agree\n', '「*(aside)*」 a*“b”*c\n', '&copy; &Aacute; &#x1F600; &nosuch;\n', '[ẞ]\n\n[SS]: /u\n', '\tcode\n\n- a\n\tb\n',
             '*a* **b** `c` [d](e) <f@g.h> ~~s~~ <b>x</b> \\* &amp;\n', '| a |\n|---|\n| b |\n', '¡*hola*! «*x*» …*y*…\n', '[Ünï]: /u "t"\n\n[ünï] [ÜNÏ][]\n',
             # (every optional piece of a LaTeX preamble at once)
             '~~s~~ ![i](/s) [l](/u) `c`\n\n| a |\n|---|\n| b |\n\n> q\n\n- i\n\n```sh\nx\n```\n\n# h\n']


def run(ctx):
    sz = SIZES[ctx.tier]
    rng = ctx.rng
    base = os.path.join(HOME, 'out')
    os.makedirs(base, exist_ok=True)
    tmpdir = tempfile.mkdtemp(prefix='c15-', dir=base)
    try:
        from .. import gen
    except ImportError:
        gen = None
    try:
        for i, w in enumerate(PINNED):
            if i % ctx.nshards == ctx.shard:
                for r in RENDERERS:
                    check_inproc(ctx, w, r, 'pinned', tmpdir)
                check_cli(ctx, [w], rng.choice(RENDERERS), 'pinned', tmpdir)
        # every command-line run is a new process and meets each construct for the first time there: tables and caches that are
        # filled on first use (Unicode punctuation next to emphasis, entity names, case folding of labels, tab stops) must give the
        # first document what they give every later one
        for i, w in enumerate(FIRST_USE):
            if i % ctx.nshards == ctx.shard:
                for r in ('Html', 'Markdown', 'LaTeX'):
                    check_cli(ctx, [w], r, 'first-use', tmpdir)
                check_cli(ctx, [w, 'plain\n', w], 'Html', 'first-use', tmpdir)
        for i, ex in enumerate(workloads.spec()):
            if i % ctx.nshards == ctx.shard and workloads.only_lf(ex['markdown']):
                for r in ('Html', rng.choice(RENDERERS[1:])):
                    check_inproc(ctx, ex['markdown'], r, 'spec', tmpdir)
        for k in range(sz['mixed'] // ctx.nshards):
            if ctx.out_of_time():
                break
            kind, text = pick(rng, gen)
            if not workloads.only_lf(text):
                ctx.count('skipped_by_filter', 'non-LF line terminator')
                continue
            check_inproc(ctx, text, rng.choice(RENDERERS), kind, tmpdir)
            if k % 4 == 0:
                texts = [text] if rng.random() < 0.7 else [text, rng.choice(workloads.spec())['markdown'], text]
                check_cli(ctx, texts, rng.choice(RENDERERS), kind, tmpdir, repeat=len(texts) > 1 and rng.random() < 0.5, inprocess=True)
            if k < 2:
                ctx.sample({'source': kind, 'text': text})
        # CLI, one file per invocation
        for k in range(sz['cli'] // ctx.nshards):
            if ctx.time_left() < 5:
                ctx.stopped_by_time = True
                break
            kind, text = pick(rng, gen) if k % 3 else ('spec', rng.choice(workloads.spec())['markdown'])
            if not workloads.only_lf(text):
                continue
            if rng.random() < 0.3 and text.endswith('\n'):
                text = text[:-1]
            check_cli(ctx, [text], rng.choice(RENDERERS), kind, tmpdir)
        k = 0
        for order in CONTEXT_ORDERS:
            for rname in ('Html', 'Markdown', 'LaTeX'):
                k += 1
                if k % ctx.nshards == ctx.shard:
                    check_cli_context(ctx, order, rname, tmpdir)
        # CLI, several files per invocation (expected output = concatenation)
        for k in range(sz['cli_multi'] // ctx.nshards):
            if ctx.time_left() < 5:
                ctx.stopped_by_time = True
                break
            texts = []
            for _ in range(rng.randint(2, 20 if ctx.tier == 'thorough' else 6)):
                kind, text = pick(rng, gen)
                if workloads.only_lf(text):
                    texts.append(text if rng.random() < 0.8 else text.rstrip('\n'))
            if len(texts) >= 2:
                check_cli(ctx, texts, rng.choice(RENDERERS), 'multi', tmpdir, repeat=rng.random() < 0.4)
    finally:
        shutil.rmtree(tmpdir, ignore_errors=True)


def finalize(m, tier):
    inconclusive = []
    eq = m.c('equal')
    cli = m.c('cli')
    if cli.get('invocations', 0) < 100:
        inconclusive.append('only %d CLI invocations compared' % cli.get('invocations', 0))
    for f in ('list', 'stringio', 'file', 'list-no-eol'):
        if eq.get(f, 0) < 100:
            inconclusive.append('supply form %s compared only %d times' % (f, eq.get(f, 0)))
    if sum(v for k, v in eq.items() if 'finalnl' in k) < 100:
        inconclusive.append('final-newline variants compared fewer than 100 times')
    return {
        'distinct_nontrivial': m.n('nontrivial'),
        'rule': 'reference = mistletoe.markdown(str); compared with list of lines (with and without line ends), iterator, io.StringIO, a '
                'real open text file, the same text with its final newline removed/added, and `python -m mistletoe -r <renderer> file...` '
                '(stdout bytes decoded as UTF-8; several files per invocation, some names repeated: expected = concatenation), under '
                'Html/Markdown/LaTeX/Ast/Jira. distinct_nontrivial = distinct (text, renderer) pairs with more than 10 bytes of output',
        'inconclusive': inconclusive,
        'extra': {'comparisons_equal_by_form': eq, 'cli': cli, 'skipped_by_filter': m.c('skipped_by_filter'), 'ambient_alerts': m.c('ambient')},
    }


def replay(ctx, case):
    base = os.path.join(HOME, 'out')
    os.makedirs(base, exist_ok=True)
    tmpdir = tempfile.mkdtemp(prefix='c15-', dir=base)
    try:
        if case.get('form') == 'cli-context':
            check_cli_context(ctx, case['order'], case['renderer'], tmpdir)
        elif case.get('form') == 'cli':
            check_cli(ctx, case['texts'], case['renderer'], 'replay', tmpdir)
        else:
            ctx.rng.random = lambda: 0.0
            check_inproc(ctx, case['text'], case['renderer'], 'replay', tmpdir)
    finally:
        shutil.rmtree(tmpdir, ignore_errors=True)


import os as _os  # noqa: E402
if _os.environ.get('VERIF_NO_PINNED'):
    PINNED = []
