"""C07 - link reference definitions: position-independent, first wins, case-folded (reference-model monitor)."""
import itertools
import random
import re

from .. import gen, mt
from ..htmlnorm import normalize

ID = 'C07'
LEVEL = 'exploration'
ASSUMPTIONS = [
    'label matching per CommonMark 0.30 section 6.3: strip, collapse runs of spaces/tabs/line endings to one space, Unicode case fold '
    '(str.casefold); labels with other whitespace characters are outside the deciding domain',
    'documents are written by the grammar generator (rtmon/gen.py) from a skeleton of paragraphs, headings, quotes and loose lists; '
    'definitions are inserted at block boundaries of any nesting level; the expected HTML is written from the tree with every '
    'reference resolved by the model (rtmon.props.c07.resolve)',
]

# label families: members of one family are equal after normalisation; different families never are
FAMILIES = [
    ['foo', 'Foo', 'FOO', 'fOo'],
    ['foo bar', 'Foo  Bar', 'FOO BAR', 'foo\tbar'],
    ['straße', 'STRASSE', 'Straße', 'STRAẞE', 'strasse'],
    ['αγως', 'ΑΓΩΣ', 'αγωσ'],
    ['label 7', 'LABEL 7', 'Label   7'],
    ['ä', 'Ä'],
    ['ae'],
    ['fo o'],
    ['naïve café', 'NAÏVE CAFÉ'],
    # equal only under a Unicode normalisation form (NFKC / NFC), which label matching does not apply: each is a family of its own
    ['\uff46\uff4f\uff4f', '\uff26\uff2f\uff2f'], ['e\u0301t', 'E\u0301T'], ['\u00e9t', '\u00c9T'], ['x\u00b2'], ['x2', 'X2'], ['\u2163', '\u2173'], ['iv', 'IV', 'Iv'],
    ['a\u0308'],
]
BREAKABLE = {'foo bar': 'foo\nbar', 'label 7': 'Label\n7', 'naïve café': 'Naïve\ncafé'}


def norm(label):
    """6.3: strip, collapse internal whitespace (space, tab, line ending), case fold."""
    return re.sub(r'[ \t\n]+', ' ', label.strip(' \t\n')).casefold()


def resolve(defs_in_order, label):
    """First definition in document order whose normalised label matches."""
    key = norm(label)
    for d in defs_in_order:
        if norm(d.label) == key:
            return d
    return None


def lists_of(blocks, path='doc'):
    yield blocks, path
    for nd in blocks:
        if nd.kind == 'quote':
            yield from lists_of(nd.blocks, path + '>quote')
        elif nd.kind == 'list':
            for it in nd.items:
                yield from lists_of(it.blocks, path + '>item')


def label_text_nodes(spelling):
    """Inline nodes for a label used as link text (collapsed / shortcut forms): words, tab and line break kept."""
    out = []
    parts = re.split(r'(\n)', spelling)
    for k, part in enumerate(parts):
        if part == '\n':
            out.append(('soft',))
        elif part:
            # 6.7 / 6.8: spaces at the end of a line and at the start of the next one are not part of the text
            shown = part
            if k + 1 < len(parts):
                shown = shown.rstrip(' \t') if shown.rstrip(' \t') != shown and not shown.endswith('  ') else shown.rstrip(' \t')
            if k > 0:
                shown = shown.lstrip(' \t')
            out.append(('literal', part) if shown == part else ('spaced', part, shown))
    return out


def build(rng, ndefs=None, nuses=None, skeleton=None):
    opt = gen.Opt(leaf_kinds=['para', 'para', 'para', 'atx', 'setext'], force_loose=True, refs=False, html=False, tables=False, max_blocks=14, empty_items=False,
                  blank_start_items=False)
    g = gen.Gen(rng, opt)
    blocks = skeleton(g) if skeleton else g.blocks(0)
    if not any(nd.kind == 'para' for L, _ in lists_of(blocks) for nd in L):
        blocks.append(g.para())
    # definitions
    ndefs = ndefs if ndefs is not None else rng.randint(1, 6)
    fams = rng.sample(FAMILIES, min(len(FAMILIES), rng.randint(1, 4)))
    defs = []
    for i in range(ndefs):
        fam = rng.choice(fams)
        label = rng.choice(fam)
        angle = rng.random() < 0.2
        d = gen.Node('refdef', label=label, dest=('dest %d' % i) if angle else '/dest%d' % i, angle=angle,
                     title=('title %d' % i) if rng.random() < 0.5 else '', tq=rng.choice('"\'('), title_nl=rng.random() < 0.15)
        if d.title and rng.random() < 0.35:
            # 6.3 titles: backslash escapes - an escaped delimiter inside, an escaped backslash at the very end
            q = d.tq
            close = ')' if q == '(' else q
            kind = rng.choice(('inner-delim', 'trailing-backslash', 'both'))
            if kind == 'inner-delim':
                d.title, d.title_md = 'a %s b %d' % (close, i), 'a \\%s b %d' % (close, i)
            elif kind == 'trailing-backslash':
                d.title, d.title_md = 'dir %d\\' % i, 'dir %d\\\\' % i
            else:
                d.title, d.title_md = '%s x\\' % close, '\\%s x\\\\' % close
        elif rng.random() < 0.25:
            # 6.3 + 6.1/6.2: destinations and titles whose spelling needs backslash escapes or character references
            if rng.random() < 0.6:
                d.title = gen.RICH_TITLES[rng.randrange(len(gen.RICH_TITLES))] + ' %d' % i
            if rng.random() < 0.6:
                d.dest, d.angle = gen.RICH_DESTS[rng.randrange(len(gen.RICH_DESTS))] + '%d' % i, rng.random() < 0.3
            d.dest_md, d.title_md = gen.spell_tail(rng, d.dest, d.title, d.tq, d.angle, True)
            d.spelled = True
        if ' ' in label and '\t' not in label and rng.random() < 0.3:
            # the label of the definition spans two lines, with white space of any kind around the line ending (it all collapses)
            a, b = label.split(' ', 1)
            d.label_md = a + rng.choice(('\n', ' \n', '\n  ', '  \n ', '\t\n', '\n   ')) + b.strip()
        d.dest_nl = rng.random() < 0.12
        d.lazy_tail = rng.random() < 0.4
        if not d.title and rng.random() < 0.12:
            d.empty_title = True                    # [l]: /u ""   (also '' and ())
        if not getattr(d, 'spelled', False) and rng.random() < 0.06:
            d.dest, d.angle = '', True              # [l]: <>  - an empty destination is a destination
        places = list(lists_of(blocks))
        L, path = rng.choice(places)
        pos = rng.randint(0, len(L))
        L.insert(pos, d)
        d.path = path
        defs.append(d)
    # near-definitions: paragraphs that look like a definition but are not one (4.7) - they must stay text and define nothing
    for i in range(rng.choice((0, 0, 1, 2))):
        fake = rng.choice(['[fake%d]: /nowhere trailing words', '[fake%d]: /u "t" trailing', '[fake%d] : /u', '[fake%d]: <unclosed',
                           '[fake%d]: /bogus "one\ntwo" junk', "[fake%d]: /bogus 'one\ntwo' junk", '[fake%d]: /bogus (one\ntwo) junk',
                           '[fake%d]: /bogus "unclosed\ntitle'])
        fake = fake % i
        node = gen.Node('para', inl=[('literal_md', fake)])
        node.fake_label = 'fake%d' % i
        L, path = rng.choice(list(lists_of(blocks)))
        L.insert(rng.randint(0, len(L)), node)
    # uses: appended to paragraphs anywhere
    # uses sit in paragraphs and in headings (their inline content is parsed the same way, after the block phase)
    paras = [(nd, path) for L, path in lists_of(blocks) for nd in L if nd.kind == 'para']
    paras = paras * 2 + [(nd, path + '>' + nd.kind) for L, path in lists_of(blocks) for nd in L if nd.kind in ('atx', 'setext') and nd.inl]
    uses = []
    nuses = nuses if nuses is not None else rng.randint(1, 6)
    for i in range(nuses):
        p, path = rng.choice(paras)
        fam = rng.choice(fams) if rng.random() < 0.8 else rng.choice(FAMILIES)
        spelling = rng.choice(fam)
        if rng.random() < 0.1:
            spelling = 'fake%d' % rng.randint(0, 1)       # never defined: the near-definitions above define nothing
        if spelling in BREAKABLE and rng.random() < 0.3 and p.kind != 'atx':
            spelling = BREAKABLE[spelling]
            if rng.random() < 0.4:
                spelling = spelling.replace('\n', rng.choice((' \n', '\n  ', ' \n ')))        # (one space: two would be a hard break; no tab: 6.8 speaks of spaces)        # white space next to the line ending collapses with it
        form = rng.choice(('full', 'collapsed', 'shortcut'))
        image = rng.random() < 0.2
        text = gen.word(rng) + ' ' + gen.word(rng)
        if form == 'full' and rng.random() < 0.25:
            # the link text of a full reference is itself a label that is (probably) defined: only the second label counts,
            # so with an undefined label the whole thing stays literal
            text = rng.choice(rng.choice(fams))
            if rng.random() < 0.5:
                spelling = 'fake%d' % rng.randint(0, 1)
        uses.append(dict(para=p, path=path, spelling=spelling, form=form, image=image, text=text))
    return opt, g, blocks, defs, uses


def finish(rng, opt, g, blocks, defs, uses):
    """Emit once to learn the document order of the definitions, resolve with the model, emit the final document."""
    probe = gen.emit(random.Random(0), opt, gen.Gen(random.Random(0), opt), blocks, 'refs', leading_blank=0)
    order = sorted(defs, key=lambda d: d.line)
    first_of = {}
    for d in order:
        first_of.setdefault(norm(d.label), d)
    info = []
    for u in uses:
        d = resolve(order, u['spelling'])
        text_nodes = [('text', w) for w in u['text'].split(' ')] if u['form'] == 'full' else label_text_nodes(u['spelling'])
        if d is not None:
            node = ('reflink', text_nodes, u['form'], u['spelling'], d.dest, d.title, u['image'])
            if rng.random() < 0.15:
                # glued to a parenthesis that is no valid inline-link tail: the reference must still resolve
                node = ('glued', node, ('literal_md', rng.choice(('(not a link)', '(/u "t" junk)', '(unclosed'))))
                u['glued'] = True
        else:
            md = gen.atom_md(('reflink', text_nodes, u['form'], u['spelling'], '', '', u['image']))
            node = ('literal_md', md)
        u['para'].inl = u['para'].inl + [node, ('text', 'end')]
        dup = sum(1 for x in order if norm(x.label) == norm(u['spelling']))
        info.append(dict(form=u['form'], resolved=d is not None, duplicates=dup, image=u['image'],
                         def_path=getattr(d, 'path', None) if d else None, use_path=u['path'],
                         def_before_use=None, multiline_label='\n' in u['spelling'], glued=u.get('glued', False)))
    doc = gen.emit(rng, opt, g, blocks, 'refs')
    for u, i in zip(uses, info):
        d = resolve(order, u['spelling'])
        if d is not None and u['para'].line is not None:
            i['def_before_use'] = d.line < u['para'].line
    doc.ref_info = info
    doc.model_table = {k: (v.dest, v.title) for k, v in first_of.items()}
    return doc


# literal_md atoms: Markdown text that must come out as exactly that text (an unresolved reference)
_atom_md, _atom_html, _atom_plain = gen.atom_md, gen.atom_html, gen.atom_plain


def _md(nd):
    if nd[0] == 'glued':
        return _md(nd[1]) + _md(nd[2])
    if nd[0] == 'spaced':
        return nd[1]
    return nd[1] if nd[0] == 'literal_md' else _atom_md(nd)


def _html(nd):
    if nd[0] == 'glued':
        return _html(nd[1]) + _html(nd[2])
    if nd[0] == 'spaced':
        return gen.esc(nd[2])
    return gen.esc(nd[1]) if nd[0] == 'literal_md' else _atom_html(nd)


def _plain(nd):
    if nd[0] == 'glued':
        return _plain(nd[1]) + _plain(nd[2])
    if nd[0] == 'spaced':
        return nd[2]
    return nd[1] if nd[0] == 'literal_md' else _atom_plain(nd)


gen.atom_md, gen.atom_html, gen.atom_plain = _md, _html, _plain


def check(ctx, doc, case):
    ctx.ev()
    try:
        cls = mt.renderer_class('Html')
        try:
            with cls() as r:
                d = mt.Document(doc.text)
                got = r.render(d)
                footnotes = dict(d.footnotes)
        finally:
            mt.reset()
    except Exception as e:  # noqa
        ctx.violation('raises', mt.exc_site(e), case, text=doc.text, traceback=mt.tb_text(e))
        return
    if normalize(got) != normalize(doc.html):
        ctx.violation('resolution-differs', mechanism(doc, got), case, text=doc.text, expected=doc.html, observed=got)
        return
    # the definition table itself
    want = {k: (gen_unquoted(v[0]), v[1]) for k, v in doc.model_table.items()}
    have = {k: (v[0], v[1]) for k, v in footnotes.items()}
    if want != have:
        ctx.violation('definition-table-differs', 'Document.footnotes', case, text=doc.text, expected=repr(want), observed=repr(have))
        return
    for i in doc.ref_info:
        key = '%s %s def@%s use@%s %s' % (i['form'], 'image' if i['image'] else 'link', i['def_path'], i['use_path'],
                                          {True: 'def-before-use', False: 'def-after-use', None: 'unresolved'}[i['def_before_use']])
        ctx.counters['references'][key] += 1
        if i['resolved'] and i['duplicates'] > 1:
            ctx.count('model', 'duplicate labels resolved first-wins')
        if not i['resolved']:
            ctx.count('model', 'literal fall-back')
        if i['multiline_label']:
            ctx.count('model', 'label with a line break')
        if i.get('glued'):
            ctx.count('model', 'reference glued to a non-link parenthesis')
        if i['resolved'] and i['def_path'] and i['def_path'] != 'doc':
            ctx.count('model', 'resolved through a nested definition')
    ctx.count('held', 'documents')
    if any(i['resolved'] for i in doc.ref_info):
        ctx.seen('nontrivial', doc.text)


def gen_unquoted(dest):
    return dest


def mechanism(doc, got):
    forms = sorted({'%s%s' % (i['form'], '' if i['resolved'] else '(unresolved)') for i in doc.ref_info})
    return 'forms: ' + ' '.join(forms)


def check_seed(ctx, seed):
    rng = random.Random(seed)
    try:
        doc = finish(rng, *build(rng))
    except AssertionError as e:
        ctx.count('generator', 'rejected by own safety rules: %s' % str(e)[:40])
        return None
    check(ctx, doc, {'kind': 'generated', 'seed': seed})
    return doc


# ---- systematic sweep: 2 definitions x 2 uses x all placements in a fixed 3-level skeleton ----------

def fixed_skeleton(g):
    N = gen.Node

    def para(w):
        return N('para', inl=[('text', w), ('text', 'text')])
    inner_list = N('list', ordered=True, start=1, delim='.', bullet='-', tight=False, indent=0,
                   items=[N('item', blocks=[para('deep')], pad=1, blank_start=False)])
    quote = N('quote', blocks=[para('quoted'), inner_list], space=True, indent=0)
    lst = N('list', ordered=False, start=1, delim='.', bullet='-', tight=False, indent=0,
            items=[N('item', blocks=[para('item'), quote], pad=1, blank_start=False), N('item', blocks=[para('second')], pad=1, blank_start=False)])
    return [para('top'), lst, para('bottom')]


def sweep_cases():
    """(positions of two definitions, paragraphs of two uses, label relation)"""
    # insertion slots are enumerated on a probe skeleton
    probe = fixed_skeleton(None)
    slots = [(i, pos) for i, (L, path) in enumerate(lists_of(probe)) for pos in range(len(L) + 1)]
    nparas = sum(1 for L, path in lists_of(probe) for nd in L if nd.kind == 'para')
    for s1, s2 in itertools.product(slots, repeat=2):
        for u1 in range(nparas):
            for rel in ('same-family', 'different-family'):
                yield s1, s2, u1, rel


def check_sweep(ctx, s1, s2, u1, rel, variant):
    rng = random.Random('%r|%r|%r|%s|%d|%d' % (s1, s2, u1, rel, variant, ctx.seed))
    opt = gen.Opt(refs=False, force_loose=True)
    g = gen.Gen(rng, opt)
    blocks = fixed_skeleton(g)
    fam = rng.choice(FAMILIES[:5])
    l1 = rng.choice(fam)
    l2 = rng.choice(fam) if rel == 'same-family' else rng.choice([f for f in FAMILIES if f is not fam])[0]
    defs = []
    for (li, pos), label, k in ((s1, l1, 0), (s2, l2, 1)):
        lists = list(lists_of(blocks))
        L, path = lists[li]
        d = gen.Node('refdef', label=label, dest='/dest%d' % k, angle=False, title='t%d' % k if k else '', tq='"', title_nl=False)
        d.path = path
        L.insert(min(pos, len(L)), d)
        defs.append(d)
    paras = [(nd, path) for L, path in lists_of(blocks) for nd in L if nd.kind == 'para']
    uses = []
    for idx in (u1, rng.randrange(len(paras))):
        p, path = paras[idx]
        uses.append(dict(para=p, path=path, spelling=rng.choice(fam), form=rng.choice(('full', 'collapsed', 'shortcut')), image=False, text='the text'))
    try:
        doc = finish(rng, opt, g, blocks, defs, uses)
    except AssertionError as e:
        ctx.count('generator', 'sweep case rejected: %s' % str(e)[:40])
        return
    check(ctx, doc, {'kind': 'sweep', 's1': list(s1), 's2': list(s2), 'u1': u1, 'rel': rel, 'variant': variant})


PINNED = [
    ('> [q]: /inquote\n\n- [l]: /inlist\n\n[q] [l] [none]\n', '<blockquote>\n</blockquote>\n<ul>\n<li></li>\n</ul>\n<p><a href="/inquote">q</a> <a href="/inlist">l</a> [none]</p>\n'),
    ('[x]: /u "t" trailing\n\n[x]\n', '<p>[x]: /u &quot;t&quot; trailing</p>\n<p>[x]</p>\n'),
]


def plan(tier):
    if tier == 'quick':
        return {'shards': 8, 'budget_s': 90}
    return {'shards': 16, 'budget_s': 900}


SIZES = {'quick': dict(docs=12000, sweep_every=5, variants=1), 'thorough': dict(docs=500000, sweep_every=1, variants=2)}


def run(ctx):
    sz = SIZES[ctx.tier]
    for i, (text, html) in enumerate(PINNED):
        if i % ctx.nshards == ctx.shard:
            ctx.ev()
            try:
                got = mt.html(text, html_escape_double_quotes=('&quot;' in html and 'title=' not in html))
            except Exception as e:  # noqa
                ctx.violation('raises', mt.exc_site(e), {'kind': 'pinned', 'index': i}, traceback=mt.tb_text(e))
                continue
            if normalize(got) != normalize(html):
                ctx.violation('resolution-differs', 'pinned: %r' % text[:24], {'kind': 'pinned', 'index': i}, text=text, expected=html, observed=got)
    k = 0
    for s1, s2, u1, rel in sweep_cases():
        k += 1
        if k % sz['sweep_every']:
            continue
        if (k // sz['sweep_every']) % ctx.nshards != ctx.shard:
            continue
        if ctx.out_of_time():
            break
        for v in range(sz['variants']):
            check_sweep(ctx, s1, s2, u1, rel, v)
    if sz['sweep_every'] == 1:
        ctx.note('placement sweep complete: 2 definitions x every pair of insertion slots x every use paragraph x {same, different} label family')
    base = ctx.seed * 1000003 + 7
    for i in range(sz['docs']):
        if i % ctx.nshards != ctx.shard:
            continue
        if ctx.out_of_time():
            break
        doc = check_seed(ctx, base + i)
        if doc is not None and len(ctx.samples) < 2 and len(doc.text) < 500:
            ctx.sample({'seed': base + i, 'markdown': doc.text, 'expected_html': doc.html})


def finalize(m, tier):
    inconclusive = []
    model = m.c('model')
    refs = m.c('references')
    if sum(refs.values()) < 3000:
        inconclusive.append('only %d references checked' % sum(refs.values()))
    if model.get('resolved through a nested definition', 0) < 200:
        inconclusive.append('fewer than 200 references resolved through a definition inside a quote or list item')
    for need in ('duplicate labels resolved first-wins', 'literal fall-back', 'label with a line break'):
        if model.get(need, 0) < 20:
            inconclusive.append('%s observed only %d times' % (need, model.get(need, 0)))
    return {
        'distinct_nontrivial': m.n('nontrivial'),
        'rule': 'generated documents: skeleton of paragraphs, headings, quotes and loose lists (depth <= 4) + 1-6 definitions inserted at '
                'random block boundaries of any nesting level + 1-6 uses (full / collapsed / shortcut, links and images, label spellings '
                'from case / whitespace / Unicode-case-folding families, some labels broken over two lines) + a placement sweep over a fixed '
                '3-level skeleton; expected HTML and definition table come from the first-wins case-folding model. distinct_nontrivial = '
                'distinct documents with at least one resolved reference',
        'inconclusive': inconclusive,
        'extra': {'references_checked': sum(refs.values()), 'distinct_reference_situations(form,kind,def path,use path,order)': len(refs),
                  'model_events': model, 'held': m.c('held'), 'generator': m.c('generator'),
                  'reference_situations_top': dict(sorted(refs.items(), key=lambda kv: -kv[1])[:40])},
    }


def replay(ctx, case):
    if case['kind'] == 'generated':
        check_seed(ctx, case['seed'])
    elif case['kind'] == 'sweep':
        check_sweep(ctx, tuple(case['s1']), tuple(case['s2']), case['u1'], case['rel'], case['variant'])
    else:
        text, html = PINNED[case['index']]
        got = mt.html(text, html_escape_double_quotes=('&quot;' in html and 'title=' not in html))
        if normalize(got) != normalize(html):
            ctx.violation('resolution-differs', 'pinned', case, text=text, expected=html, observed=got)


import os as _os  # noqa: E402
if _os.environ.get('VERIF_NO_PINNED'):
    PINNED = []
