"""
Engine shared by all property deciders: shard context, statistics, verdicts,
evidence, known findings, replay files.

Vocabulary
    case       JSON-serialisable dict that a property's ``replay`` understands
    clause     which part of the property's oracle was broken
    key        mechanism signature used for de-duplication (never a hash of
               random data: clause + exception call site / first differing node)
"""
import collections
import hashlib
import json
import os
import pickle
import random
import subprocess
import sys
import time
import traceback

HOME = os.environ.get('VERIF_HOME') or os.path.dirname(os.path.dirname(os.path.abspath(__file__)))
REPO = os.environ.get('VERIF_REPO', '/repo')
DEFAULT_SEED = 20261004
NCPU = min(16, os.cpu_count() or 4)

EXIT_HELD, EXIT_VIOLATED, EXIT_INCONCLUSIVE = 0, 1, 2


class StopShard(Exception):
    """Raised by a property to end its shard early (e.g. after enough confirmed
    non-termination witnesses, each of which costs the full CPU budget twice)."""


class ShardTerminated(BaseException):
    """SIGTERM from the parent's wall-clock watchdog: dump what was observed so far."""


def h64(obj):
    if not isinstance(obj, (str, bytes)):
        obj = json.dumps(obj, sort_keys=True, default=repr, ensure_ascii=False)
    if isinstance(obj, str):
        obj = obj.encode('utf-8', 'surrogatepass')
    return int.from_bytes(hashlib.blake2b(obj, digest_size=8).digest(), 'big')


def short(s, n=300):
    if isinstance(s, str) and len(s) > n:
        return s[:n] + '...(+%d)' % (len(s) - n)
    return s


class Ctx:
    """Per-shard run context handed to a property's ``run``."""

    def __init__(self, prop, tier, seed, shard, nshards, budget_s):
        self.prop = prop
        self.prop_id = prop.ID
        self.tier = tier
        self.seed = seed
        self.shard = shard
        self.nshards = nshards
        self.rng = random.Random(seed * 1000 + shard)
        self.t0 = time.time()
        self.budget_s = budget_s
        self.evaluations = 0
        self.counters = collections.defaultdict(collections.Counter)
        self.distinct = collections.defaultdict(set)
        self.samples = []
        self.violations = []
        self.violation_counts = collections.Counter()
        self.finding_counts = collections.Counter()
        self.finding_witness = {}
        self.notes = []
        self.stopped_by_time = False
        self.case_index = 0

    # ---- budgets ---------------------------------------------------------
    def time_left(self):
        return self.budget_s - (time.time() - self.t0)

    def out_of_time(self):
        if self.time_left() <= 0:
            self.stopped_by_time = True
            return True
        return False

    # ---- statistics ------------------------------------------------------
    def ev(self, n=1):
        self.evaluations += n
        self.case_index += 1

    def count(self, group, key, n=1):
        self.counters[group][str(key)] += n

    def seen(self, name, value):
        """Record a distinct value (hashed); returns True when new."""
        s = self.distinct[name]
        h = value if isinstance(value, int) and not isinstance(value, bool) and value > 1 << 40 else h64(value)
        if h in s:
            return False
        s.add(h)
        return True

    def sample(self, obj, cap=6):
        if len(self.samples) < cap:
            self.samples.append(obj)

    def note(self, text):
        if text not in self.notes:
            self.notes.append(text)

    # ---- violations ------------------------------------------------------
    def violation(self, clause, key, case, **detail):
        """Report an oracle failure.  ``key`` names the mechanism; the property's
        classifier may attribute it to a listed known finding."""
        finding = None
        classify = getattr(self.prop, 'classify', None)
        if classify is not None:
            try:
                finding = classify(clause, key, case, detail)
            except Exception:  # a classifier crash must never hide a violation
                detail['classifier_error'] = traceback.format_exc(limit=4)
                finding = None
        if finding is not None:
            self.finding_counts[finding] += 1
            if finding not in self.finding_witness:
                self.finding_witness[finding] = {'clause': clause, 'key': key, 'case': case}
            return finding
        full = '%s|%s' % (clause, key)
        self.violation_counts[full] += 1
        if self.violation_counts[full] <= 3:
            self.violations.append({
                'clause': clause, 'key': key, 'case': case,
                'detail': {k: short(v, 2000) for k, v in detail.items()},
                'seed': self.seed, 'shard': self.shard, 'case_index': self.case_index,
                'tier': self.tier,
            })
        return None

    # ---- transport -------------------------------------------------------
    def dump(self, path, extra=None):
        data = {
            'evaluations': self.evaluations,
            'counters': {g: dict(c) for g, c in self.counters.items()},
            'distinct': {k: v for k, v in self.distinct.items()},
            'samples': self.samples,
            'violations': self.violations,
            'violation_counts': dict(self.violation_counts),
            'finding_counts': dict(self.finding_counts),
            'finding_witness': self.finding_witness,
            'notes': self.notes,
            'stopped_by_time': self.stopped_by_time,
            'wall_s': time.time() - self.t0,
            'extra': extra or {},
        }
        with open(path, 'wb') as f:
            pickle.dump(data, f)


class Merged:
    def __init__(self):
        self.evaluations = 0
        self.counters = collections.defaultdict(collections.Counter)
        self.distinct = collections.defaultdict(set)
        self.samples = []
        self.violations = []
        self.violation_counts = collections.Counter()
        self.finding_counts = collections.Counter()
        self.finding_witness = {}
        self.notes = []
        self.stopped_by_time = 0
        self.extra = []
        self.shards_ok = 0
        self.shards_failed = []

    def add(self, d):
        self.evaluations += d['evaluations']
        for g, c in d['counters'].items():
            self.counters[g].update(c)
        for k, v in d['distinct'].items():
            self.distinct[k] |= v
        for s in d['samples']:
            if len(self.samples) < 8:
                self.samples.append(s)
        self.violations.extend(d['violations'])
        self.violation_counts.update(d['violation_counts'])
        self.finding_counts.update(d['finding_counts'])
        for k, v in d['finding_witness'].items():
            self.finding_witness.setdefault(k, v)
        for n in d['notes']:
            if n not in self.notes:
                self.notes.append(n)
        self.stopped_by_time += 1 if d['stopped_by_time'] else 0
        self.extra.append(d['extra'])
        self.shards_ok += 1

    def n(self, name):
        return len(self.distinct.get(name, ()))

    def c(self, group):
        return dict(self.counters.get(group, {}))


# --------------------------------------------------------------------------
# known findings
# --------------------------------------------------------------------------

def load_findings(prop_id=None):
    path = os.path.join(HOME, 'known_findings.json')
    if not os.path.exists(path):
        return []
    with open(path) as f:
        data = json.load(f)
    out = []
    for e in data.get('findings', []):
        if prop_id is None or e.get('property') == prop_id:
            out.append(e)
    return out


def open_findings(prop_id):
    return [e for e in load_findings(prop_id) if e.get('status') == 'open']


# --------------------------------------------------------------------------
# replay files / evidence
# --------------------------------------------------------------------------

def write_replay(prop_id, v):
    d = os.path.join(os.environ.get('VERIF_REPLAY_DIR') or os.path.join(HOME, 'replays'), prop_id)
    os.makedirs(d, exist_ok=True)
    name = '%012x.json' % (h64([v['clause'], v['key'], v['case']]) >> 16)
    path = os.path.join(d, name)
    with open(path, 'w', encoding='utf-8', errors='backslashreplace') as f:     # (a lone surrogate becomes its JSON escape)
        json.dump({'property': prop_id, **v}, f, indent=1, ensure_ascii=False, default=repr)
    return os.path.relpath(path, HOME)


def write_evidence(prop, tier, seed, merged, fin, wall_s, n_violations):
    cov = {
        'evaluations': int(merged.evaluations),
        'distinct_nontrivial': int(fin.get('distinct_nontrivial', 0)),
        'rule': fin.get('rule', ''),
        'samples': fin.get('samples') or merged.samples or ['<none>'],
    }
    if fin.get('exhaustive'):
        cov['exhaustive'] = True
    cov['counters'] = {g: dict(sorted(c.items(), key=lambda kv: -kv[1])[:80]) for g, c in merged.counters.items()}
    cov['distinct_sets'] = {k: len(v) for k, v in merged.distinct.items()}
    cov['known_findings_seen'] = dict(merged.finding_counts)
    cov['shards'] = {'ok': merged.shards_ok, 'failed': merged.shards_failed,
                     'stopped_by_time': merged.stopped_by_time}
    cov['notes'] = merged.notes
    for k, v in (fin.get('extra') or {}).items():
        cov[k] = v
    ev = {
        'property_id': prop.ID,
        'tier': tier,
        'seed': int(seed),
        'level': prop.LEVEL,
        'coverage': cov,
        'assumptions': list(getattr(prop, 'ASSUMPTIONS', [])),
        'wall_s': round(wall_s, 3),
        'violations': int(n_violations),
        'verdict': fin.get('verdict', ''),
        'code_under_test': REPO,
    }
    d = os.environ.get('VERIF_EVIDENCE_DIR') or os.path.join(HOME, 'evidence')
    os.makedirs(d, exist_ok=True)
    path = os.path.join(d, prop.ID + '.json')
    tmp = path + '.tmp'
    with open(tmp, 'w', encoding='utf-8', errors='backslashreplace') as f:
        json.dump(ev, f, indent=1, ensure_ascii=False, default=repr)
    os.replace(tmp, path)
    return path


# --------------------------------------------------------------------------
# running shards
# --------------------------------------------------------------------------

def run_shards(prop, tier, seed, nshards, budget_s, wall_cap_s):
    """Every shard is its own interpreter (fresh import of the code under test,
    no shared mutable parser state between shards, a crash takes down only one
    shard).  Never multiprocessing.Pool: a dying child would hang it."""
    outdir = os.path.join(HOME, 'out', 'run-%s-%d-%d' % (prop.ID, os.getpid(), int(time.time())))
    os.makedirs(outdir, exist_ok=True)
    procs = []
    env = dict(os.environ)
    for i in range(nshards):
        out = os.path.join(outdir, 'shard%d.pkl' % i)
        log = open(os.path.join(outdir, 'shard%d.log' % i), 'w')
        cmd = [sys.executable, '-X', 'faulthandler', '-m', 'rtmon', prop.ID, '--worker',
               '--shard', str(i), '--nshards', str(nshards), '--tier', tier,
               '--seed', str(seed), '--budget', str(budget_s), '--out', out]
        procs.append((i, subprocess.Popen(cmd, stdout=log, stderr=subprocess.STDOUT, env=env, cwd=HOME), out, log))
    merged = Merged()
    deadline = time.time() + wall_cap_s
    for i, p, out, log in procs:
        try:
            rc = p.wait(timeout=max(1, deadline - time.time()))
        except subprocess.TimeoutExpired:
            p.terminate()          # lets the shard dump what it has observed
            try:
                p.wait(timeout=20)
            except subprocess.TimeoutExpired:
                p.kill()
                p.wait()
            rc = 'watchdog'
        log.close()
        if rc == 0 and os.path.exists(out):
            with open(out, 'rb') as f:
                merged.add(pickle.load(f))
        else:
            if os.path.exists(out):
                try:
                    with open(out, 'rb') as f:
                        merged.add(pickle.load(f))
                    merged.shards_ok -= 1
                except Exception:
                    pass
            tail = ''
            try:
                with open(log.name) as f:
                    tail = f.read()[-1500:]
            except OSError:
                pass
            merged.shards_failed.append({'shard': i, 'rc': rc, 'log_tail': tail})
    # scratch output is removed as soon as it is merged
    for i, p, out, log in procs:
        for path in (out, log.name):
            try:
                os.remove(path)
            except OSError:
                pass
    try:
        os.rmdir(outdir)
    except OSError:
        pass
    return merged


def worker_main(prop, args, cov=None):
    import resource
    import signal
    ctx = Ctx(prop, args.tier, args.seed, args.shard, args.nshards, args.budget)
    # a runaway case must not take the machine down: cap the address space of every shard
    cap = int(os.environ.get('VERIF_SHARD_MEM_GB', '6')) << 30
    try:
        resource.setrlimit(resource.RLIMIT_AS, (cap, cap))
    except (ValueError, OSError):
        pass

    def on_term(signum, frame):
        raise ShardTerminated()
    signal.signal(signal.SIGTERM, on_term)
    from . import taps
    if cov is None:
        cov = taps.LineCoverage()
        cov.start()
    extra = {}
    rc = 0
    try:
        r = prop.run(ctx)
        if isinstance(r, dict):
            extra.update(r)
    except StopShard as e:
        ctx.note('shard %d stopped early: %s' % (ctx.shard, e))
    except ShardTerminated:
        ctx.note('shard %d was terminated by the wall-clock watchdog; partial observations kept' % ctx.shard)
        rc = 3
    finally:
        cov.stop()
    extra['lines'] = cov.result()
    ctx.dump(args.out, extra)
    return rc


def main_check(prop, tier, seed):
    t0 = time.time()
    plan = prop.plan(tier)
    nshards = plan.get('shards', 1)
    budget = plan.get('budget_s', 60)
    wall_cap = plan.get('wall_cap_s', budget * 4 + 120)
    # witnesses of earlier runs must not be mistaken for this run's
    rdir = os.path.join(os.environ.get('VERIF_REPLAY_DIR') or os.path.join(HOME, 'replays'), prop.ID)
    if os.path.isdir(rdir):
        for fn in os.listdir(rdir):
            if fn.endswith('.json'):
                try:
                    os.remove(os.path.join(rdir, fn))
                except OSError:
                    pass
    prepare = getattr(prop, 'prepare', None)
    if prepare is not None:
        os.environ.update(prepare(tier, seed) or {})
    try:
        merged = run_shards(prop, tier, seed, nshards, budget, wall_cap)
    finally:
        cleanup = getattr(prop, 'cleanup', None)
        if cleanup is not None:
            cleanup()

    # pinned witnesses of open findings are reproduced in every run
    finding_lines = []
    findings = open_findings(prop.ID)
    pinned = getattr(prop, 'pinned_witness', None)
    for f in findings:
        status = 'not re-run'
        if pinned is not None:
            try:
                status = 'reproduced' if pinned(f) else 'pinned witness no longer fails'
            except Exception as e:  # noqa
                status = 'pinned witness raised %s' % type(e).__name__
        seen = merged.finding_counts.get(f['id'], 0)
        finding_lines.append('KNOWN-FINDING: property=%s %s [%s; id=%s; pinned witness: %s; matched %d case(s) in this run]'
                             % (prop.ID, f['what'], f.get('key_kind', 'mechanism'), f['id'], status, seen))

    fin = prop.finalize(merged, tier) or {}
    lines_total = merge_lines(merged.extra)
    fin.setdefault('extra', {})['lines_hit'] = lines_total
    inconclusive = list(fin.get('inconclusive') or [])
    for f in anchored_files(prop.ID):
        if lines_total.get(f, {}).get('hit', 0) == 0:
            inconclusive.append('anchored file %s was never executed by this run' % f)
    if merged.shards_failed:
        inconclusive.append('%d shard(s) died or hit the wall-clock watchdog' % len(merged.shards_failed))
    if merged.evaluations == 0:
        inconclusive.append('no evaluations')

    # de-duplicate violations by mechanism key
    by_key = collections.OrderedDict()
    # witnesses that were reproduced in a fresh interpreter (C11) come first
    merged.violations.sort(key=lambda v: 0 if str(v['case'].get('confirmation', '')).startswith('reproduced') else 1
                           if isinstance(v.get('case'), dict) else 1)
    for v in merged.violations:
        k = '%s|%s' % (v['clause'], v['key'])
        cur = by_key.get(k)
        size = len(json.dumps(v['case'], default=repr))
        if cur is None or size < cur[0]:
            by_key[k] = (size, v)
    out_lines = []
    MAX_LINES = 12
    for k, (_, v) in list(by_key.items())[:MAX_LINES]:
        v['occurrences'] = merged.violation_counts.get(k, 1)
        path = write_replay(prop.ID, v)
        out_lines.append('VIOLATION property=%s replay=%s clause=%s key=%s occurrences=%d'
                         % (prop.ID, path, v['clause'], short(v['key'], 160), v['occurrences']))
    nviol = len(by_key)
    if nviol > MAX_LINES:
        out_lines.append('(%d further distinct violation keys not listed; see evidence)' % (nviol - MAX_LINES))
        fin.setdefault('extra', {})['violation_keys'] = [k for k in by_key][:200]
    if nviol:
        verdict = 'violated'
    elif inconclusive:
        verdict = 'inconclusive'
    else:
        verdict = 'held on what was observed'
    fin['verdict'] = verdict
    if inconclusive:
        fin['extra']['inconclusive_reasons'] = inconclusive
    wall = time.time() - t0
    path = write_evidence(prop, tier, seed, merged, fin, wall, nviol)
    for l in finding_lines:
        print(l)
    for l in out_lines:
        print(l)
    print('%s %s tier=%s seed=%d evaluations=%d distinct_nontrivial=%d wall=%.1fs evidence=%s'
          % (prop.ID, verdict.upper().split()[0], tier, seed, merged.evaluations,
             fin.get('distinct_nontrivial', 0), wall, os.path.relpath(path, HOME)))
    if nviol:
        return EXIT_VIOLATED
    if inconclusive:
        for r in inconclusive:
            print('INCONCLUSIVE property=%s reason=%s' % (prop.ID, r))
        return EXIT_INCONCLUSIVE
    return EXIT_HELD


def anchored_files(prop_id):
    """Files of the code under test that the property is anchored in (properties.jsonl)."""
    out = []
    try:
        with open(os.path.join(HOME, 'properties.jsonl')) as f:
            for line in f:
                p = json.loads(line)
                if p['id'] == prop_id:
                    out = [x for x in p['anchors']['files'] if x.startswith('mistletoe/') and x.endswith('.py')]
    except (OSError, ValueError, KeyError):
        pass
    return out


def merge_lines(extras):
    files = {}
    for e in extras:
        for fn, (hit, total) in (e.get('lines') or {}).items():
            cur = files.setdefault(fn, [set(), total])
            cur[0] |= set(hit)
    return {fn: {'hit': len(h), 'executable': t} for fn, (h, t) in sorted(files.items())}


def main_replay(prop, path):
    with open(path if os.path.isabs(path) else os.path.join(HOME, path)) as f:
        v = json.load(f)
    ctx = Ctx(prop, v.get('tier', 'quick'), v.get('seed', DEFAULT_SEED), 0, 1, 600)
    prop.replay(ctx, v['case'])
    if ctx.violations:
        for w in ctx.violations:
            print('VIOLATION property=%s replay=%s clause=%s key=%s' % (prop.ID, path, w['clause'], short(w['key'], 160)))
            for k, val in w['detail'].items():
                print('  %s: %s' % (k, short(repr(val), 1500)))
        return EXIT_VIOLATED
    if ctx.finding_counts:
        for k in ctx.finding_counts:
            print('KNOWN-FINDING: property=%s id=%s (replayed case matches a listed finding)' % (prop.ID, k))
        return EXIT_HELD
    print('%s replay: no violation on this case' % prop.ID)
    return EXIT_HELD
