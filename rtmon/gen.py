"""
Grammar generator G (input source S3): builds a document TREE of CommonMark/GFM
constructs, writes one concrete Markdown spelling of it, and - independently of
all mistletoe code - the HTML that tree stands for, the 1-based source line of
every block, the link-definition table and the heading outline.

Trusted base.  Each production relies on the CommonMark 0.30 / GFM clause cited
next to it; the safety rules that make the intended tree the ONLY reading are:

  R1  every paragraph / setext-content line starts with a plain word (letters),
      so it cannot open a block (4.1-4.6, 5.1, 5.2) and is never only = or -;
  R2  emphasis content starts and ends with a word; openers follow start-of-line
      or a space, closers precede end, a space or one of . , ; (6.2 flanking);
      nested emphasis uses the other delimiter character and is surrounded by words;
  R3  code-span content contains no backtick (6.1);
  R4  link text contains no link; destinations are URL-safe ASCII (6.3);
  R5  two adjacent lists differ in bullet character / ordered delimiter (5.3);
  R6  indented code never directly follows a paragraph or a list and is never the
      first block of a list item (4.4);
  R7  a table is preceded by a blank line or a non-paragraph block; rows have as
      many cells as the header; no empty cells (GFM tables);
  R8  HTML start condition 7 never follows a paragraph line; HTML block content
      lines of conditions 6/7 are non-blank (4.6);
  R9  the blank line between two blocks is only omitted where 0.30 lets the
      second block interrupt / directly follow the first (see can_follow);
  R10 lazy continuation lines (5.1, 5.2) drop ALL container prefixes at once and
      only for paragraph continuation lines (which start with a word, R1).
"""
import os
import html as _html
import re

WORDS = ['alpha', 'beta', 'gamma', 'delta', 'epsilon', 'lorem', 'ipsum', 'dolor', 'sit', 'amet', 'über', 'naïve', 'Straße', '中文',
         'x1', 'a2b', 'Zeta', 'ETA', 'theta', 'iota', 'kappa', 'lambda', 'mu', 'nu', 'xi', 'omicron', 'pi', 'rho', 'sigma', 'tau']
# words with a character inside that str.splitlines() / \s treat as a separator but Markdown does not (form feed, FS, NEL, LS, PS, VT)
EXOTIC_WORDS = ['al\x0cpha', 'be\x85ta', 'ga\u2028mma', 'de\x1clta', 'ep\u2029silon', 'ze\x0bta']
CODE_WORDS = ['code', 'x = y', 'a*b', '_id_', 'f(x)', '<tag>', 'a & b', '[i]', 'foo  bar', '"q"', "it's", '~~no~~', '\\n', 'a|b', '**x**', '&amp;']
# code-span contents whose space-separated pieces cannot be mistaken for a block marker when a reflow puts them at the start of a line
PROSE_CODE_WORDS = ['code', 'a*b', '_id_', 'f(x)', 'foo  bar', '"q"', "it's", '~~no~~', '\\n', '**x**', '&amp;', 'a & b', 'one two three', 'x(1) y']
DESTS = ['/url', '/path/to/page', 'http://example.com/', 'http://example.com/a?b=c#frag', '#anchor', 'page.html', '/a(b)c', '/x_y', '/q?a=1&b=2',
         'https://example.org/index.html']
ANGLE_DESTS = ['my url', 'a(b', '/x y/z']
TITLES = ['title', 'a title', "it's", 'say "hi"', 'one (two)', 'Ünï']
# semantic values (what the attribute must contain); spell_tail() chooses a spelling with backslash escapes / references
RICH_TITLES = ['it`s', 'a*b', 'x_y z_', '5 > 3 & 2', '<b>', '[x]', 'back\\slash', 'a\\*b', '&amp;', '**', '``x', '!#$%', '"both\' (kinds)"', 'tail\\',
               'a|b', '\\&amp;', 'q: "x"', '{x}', '{', 'a } b', '{target} {inner} {title}', '{{b}}', '{0} %s %(x)s']
RICH_DESTS = ['/a`b', '/a*b*', '/x\\y', '/a"b', "/a'b", '/&amp;', '/a(b(c))', '/a)b', '/[x]', '/a<b>', '/a\\*b', '/_x_', '/a(b', '/~', '/&copy']
AUTOLINKS = ['http://example.com/path', 'https://a.b/c?d=e&f=g', 'ftp://host/file.txt', 'mailto:someone@example.com']
EMAILS = ['user@example.com', 'first.last@sub.example.org']
ESCAPABLE = list('!"#$%&\'()*+,-./:;<=>?@[\\]^_`{}~')     # every ASCII punctuation character except '|' (table cells)
ENTITIES = [('&amp;', '&'), ('&lt;', '<'), ('&gt;', '>'), ('&copy;', '©'), ('&#35;', '#'), ('&#x41;', 'A'), ('&quot;', '"'), ('&auml;', 'ä'), ('&#169;', '©'),
            ('&#128;', '\x80'), ('&#159;', '\x9f'), ('&#x110000;', '\ufffd'), ('&#xD800;', '\ufffd'), ('&#0;', '\ufffd'),
            ('&nbsp;', '\xa0'), ('&emsp;', '\u2003'), ('&ngE;', '\u2267\u0338'), ('&#X1F600;', '\U0001F600')]
REFERENCE_LOOKALIKES = ['&copy', '&amp', '&#35', '&notit;', '&copyfoo;', '&ampere;', '&nosuch;', '&#99999999;', '&#xFFFFFFF;', '&#;', '&#x;', '&Amp;', 'AT&T;']
RAW_HTML = ['<span>', '</span>', '<br />', '<b class="x">', '</b>', '<!-- note -->', '<i data-x=\'1\'>', '<x-y z>']
INFO = ['', '', 'python', 'sh', 'c++', 'js extra words', 'ruby startline=3']
INFO_TILDE = ['~x', '~~ lang', '`tick`', 'a ``` b', '~', 'sh ~~~', '~~~']
FENCE_LINES = ['code line', 'x = 1', '    indented', '# not a heading', '- not a list', '> not a quote', '*not emph*', '<div>', '', 'a  b', '[ref]: /nope',
               '``', '~', '| a | b |', '&amp; <&>', '\\*', '1. one', '---', '===']
HTML6 = [['<div>', 'inner *not emph*', '</div>'], ['<table>', '<tr><td>', 'cell', '</td></tr>', '</table>'], ['<p class="c">text</p>'], ['</div>'],
         ['<DIV CLASS="foo">', '*Markdown*', '</DIV>'], ['<hr />'], ['<section>'], ['<hr/>'], ['<div/>', '*not emph*'], ['<HR/>'], ['<col/>text']]
HTML1 = [['<pre>', 'keep  this', '', '  and *this*', '</pre>'], ['<script>', 'var x = "<p>";', '', '</script>'], ['<style>p{color:red}</style>'],
         ['<textarea>', '', '*x*', '</textarea>']]
HTML2 = [['<!-- comment -->'], ['<!--', 'multi', '', 'line -->'], ['<?php echo 1; ?>'], ['<!DOCTYPE html>'], ['<![CDATA[', 'x < y', ']]>']]
HTML7 = [['<x-note>', 'text *here*'], ['<my-tag attr="v">'], ['</x-note>'], ['<a href="u">', 'still html']]

PROFILES = {
    # switches: see generate()
    'full': dict(rich_links=True, exotic_words=True, ws_blank_lines=True, adjacent_lists=True),
    'roundtrip': dict(entities=False, indent4_cont=False, empty_items=False, rich_links='plain', ws_blank_lines=True),
    'normalform': dict(entities=False, indent4_cont=False, canonical=True, empty_items=False, blank_start_items=False),
    'prose': dict(entities=False, indent4_cont=False, prose=True, empty_items=False),
    'outline': dict(outline=True),
}


class Opt:
    def __init__(self, **kw):
        self.entities = True          # character references in text
        self.indent4_cont = True      # paragraph continuation lines indented >= 4
        self.canonical = False        # renderer's own normal form only
        self.prose = False            # C10: prose-only leaf blocks, rich inline
        self.outline = False          # C19: plain-word headings forming an outline
        self.setext_in_quote = True   # (was known finding C03/C04-setext-in-quote; repaired)
        self.lazy_after_indented = True    # (was known finding C03-lazy-after-indented-in-quote, repaired in c774fd1)
        self.setext_space_hard_break = True    # (was known finding C03-setext-trailing-space-hard-break, repaired in 6a8c723)
        self.tilde_code_in_strike = False      # known finding C03-strike-vs-code-tilde
        self.empty_last_item = True            # (was known finding C03-empty-last-item-swallows-blank, repaired in 4ed4651)
        self.table_escaped_pipe = True         # (was off for the round-trip profiles: C09-escaped-pipe-in-table-cell, repaired in f65540f)
        self.table_first_in_item = True    # (was known finding C03-table-starts-later-list-item, repaired in f5694e9)
        self.para_after_closed_container = True    # (was known finding C03-lazy-after-nonparagraph-*, repaired in c774fd1)
        self.odd_blank_lines = False  # blank lines made of FF / NBSP / EM SPACE ... (round-trip profile only)
        self.adjacent_lists = False   # a list directly followed (after a blank line) by a list of another type (profile "full")
        self.ws_blank_lines = False   # blank lines made of spaces / tabs (profiles "full", "roundtrip")
        self.exotic_words = False     # words containing FF / NEL / LS ... (profile "full")
        self.rich_links = False       # destinations / titles with escapes, references and Markdown-significant characters (profile "full")
        self.code_first_items = True  # list items that begin with indented code: marker, one space, then the four columns of the code (5.2 rule 2)
        self.lazy = True
        self.omit_blank = True
        self.indent = True
        self.tables = True
        self.html = True
        self.refs = True
        self.empty_items = True
        self.blank_start_items = True
        self.unclosed_fence = True
        self.leaf_kinds = None       # restrict leaf block kinds (C07 / C19 skeletons)
        self.force_loose = False
        self.max_depth = 4
        self.max_blocks = 40
        for k, v in kw.items():
            setattr(self, k, v)
        # maintenance only (trying a candidate repair before a finding is closed): VERIF_GEN_OPTS="switch=1,other=0"
        for item in filter(None, os.environ.get('VERIF_GEN_OPTS', '').split(',')):
            k, _, v = item.partition('=')
            setattr(self, k.strip(), v.strip() not in ('0', '', 'False'))


class Line:
    __slots__ = ('text', 'lazy', 'starts', 'kind')

    def __init__(self, text, lazy=False, starts=None, kind='x'):
        self.text = text
        self.lazy = lazy          # paragraph continuation line whose container prefixes are all dropped (R10)
        self.starts = starts or []
        self.kind = kind


class Node:
    def __init__(self, kind, **kw):
        self.kind = kind
        self.line = None
        self.__dict__.update(kw)

    def __repr__(self):
        return 'Node(%s)' % self.kind


class Doc:
    pass


# =====================================================================================
# inline level
# =====================================================================================

def word(rng):
    return rng.choice(WORDS)


def gen_words(rng, n):
    return ' '.join(word(rng) for _ in range(n))


def gen_atom(rng, opt, depth, allow_link=True, emph_char=None, in_strike=False, simple=False, breaks=False):
    """Returns an inline node (tuple).  depth limits nesting."""
    r = rng.random()
    if simple or depth >= 2:
        r = r * 0.55
    if r < 0.40:
        if opt.exotic_words and rng.random() < 0.08:
            return ('text', rng.choice(EXOTIC_WORDS))
        return ('text', word(rng))
    if r < 0.50:
        c = rng.choice(CODE_WORDS if not opt.prose else PROSE_CODE_WORDS)
        if in_strike and '~~' in c and not opt.tilde_code_in_strike:
            c = 'code'        # known finding C03-strike-vs-code-tilde
        if breaks and not opt.canonical and rng.random() < 0.12:
            # 6.1: line endings inside a code span become spaces; the next line starts with a word (R1)
            if not opt.prose and rng.random() < 0.4:
                # the content stands on lines of its own, or has a space on one side and a line ending on the other: one
                # "space" is stripped from each side
                return ('code', rng.choice(('foo', 'make install', 'a  b')), rng.choice((1, 2)), rng.choice((('\n', '\n'), (' ', '\n'), ('\n', ' '))))
            c = rng.choice(('alpha\nbeta', 'x = 1\ny', '\nmake install', 'one\ntwo\nthree') if not opt.prose else ('alpha\nbeta', '\nmake install', 'one\ntwo\nthree'))
            return ('code', c, rng.choice((1, 2)), False)
        return ('code', c, rng.choice((1, 1, 2)), rng.random() < 0.25)
    if r < 0.55:
        ch = rng.choice(ESCAPABLE)
        return ('esc', ch, word(rng))
    if r < 0.67:
        ch = rng.choice('*_') if emph_char is None else ('_' if emph_char == '*' else '*')
        kind = rng.choice(('em', 'strong'))
        return (kind, ch, gen_span_content(rng, opt, depth + 1, allow_link, ch, in_strike, breaks),
                rng.choice(('', '', '', '.', ',', ';') + (('\U00011047', '\u2e3a', '\U00010100') if opt.exotic_words else ())))
    if r < 0.71 and not in_strike:
        return ('strike', gen_span_content(rng, opt, depth + 1, allow_link, emph_char, True, breaks))
    if r < 0.80 and allow_link:
        return gen_link(rng, opt, depth, image=False, in_strike=in_strike, breaks=breaks)
    if r < 0.85:
        return gen_link(rng, opt, depth, image=True, in_strike=in_strike)
    if r < 0.89:
        return ('autolink', rng.choice(AUTOLINKS))
    if r < 0.91:
        return ('email', rng.choice(EMAILS))
    if r < 0.95 and opt.entities:
        if rng.random() < 0.25:
            return ('literal', rng.choice(REFERENCE_LOOKALIKES))      # 6.2: no reference without ';', an exact name, 1-7 / 1-6 digits
        return ('ent',) + rng.choice(ENTITIES)
    if r < 0.98 and opt.html and not opt.prose:
        if breaks and rng.random() < 0.2:
            return ('html', rng.choice(('<!-- note\nmore\nend -->', '<span\nclass="x">', '<!-- a\nb -->')))
        return ('html', rng.choice(RAW_HTML))
    return ('text', word(rng))


def gen_span_content(rng, opt, depth, allow_link, emph_char, in_strike, breaks=False):
    """word [atom word]*  (R2: starts and ends with a word)"""
    out = [('text', word(rng))]
    for _ in range(rng.choice((0, 0, 1, 1, 2))):
        out.append(gen_atom(rng, opt, depth, allow_link, emph_char, in_strike, breaks=breaks))
        if breaks and rng.random() < 0.12:
            out.append(('soft',))        # the next line starts with a plain word (R1)
        out.append(('text', word(rng)))
    return out


def gen_link(rng, opt, depth, image, in_strike=False, breaks=False):
    if image:
        text = [('text', word(rng))]
        if rng.random() < 0.3:
            text += [('em', '*', [('text', word(rng))], ''), ('text', word(rng))]
    else:
        text = gen_span_content(rng, opt, depth + 1, False, None, in_strike, breaks)
    angle = rng.random() < 0.15
    dest = rng.choice(ANGLE_DESTS) if angle else rng.choice(DESTS)
    title = rng.choice(TITLES) if rng.random() < 0.35 else ''
    if title and breaks and rng.random() < 0.25:
        title = rng.choice(('one\ntwo', 'one\ntwo\nthree words'))      # 6.3: a title may span lines (no blank line)
    tq = rng.choice('"\'(')
    if title and ((tq == '"' and '"' in title) or (tq == "'" and "'" in title) or (tq == '(' and ('(' in title or ')' in title))):
        tq = next(q for q in '"\'(' if not ((q == '"' and '"' in title) or (q == "'" and "'" in title) or (q == '(' and '(' in title)))
    if opt.rich_links and rng.random() < 0.3:
        t2, d2, a2 = title, dest, angle
        if rng.random() < 0.6:
            t2 = rng.choice(RICH_TITLES)
        if rng.random() < 0.6:
            d2, a2 = rng.choice(RICH_DESTS), rng.random() < 0.3
        q2 = rng.choice('"\'(')
        if opt.rich_links == 'plain':
            # round-trip profiles: only values whose spelling needs no escape at all (escapes in destinations and titles
            # are one of C09's excluded classes)
            sp = spell_tail(rng, d2, t2, q2, a2, False, p=0.0)
            if sp == (d2, t2):
                return ('image' if image else 'link', text, d2, t2, q2, a2, sp)
        else:
            return ('image' if image else 'link', text, d2, t2, q2, a2, spell_tail(rng, d2, t2, q2, a2, opt.entities))
    return ('image' if image else 'link', text, dest, title, tq, angle)


_PUNCT = set('!"#$%&\'()*+,-./:;<=>?@[\\]^_`{|}~')
_ENT_START = re.compile(r'&(?:#[0-9]{1,7}|#[xX][0-9a-fA-F]{1,6}|[A-Za-z0-9]{1,32});')
_ENT_OF = {'&': '&amp;', '"': '&quot;', '<': '&lt;', '>': '&gt;', '#': '&#35;', '*': '&#42;', '`': '&#96;', '\\': '&#92;', '(': '&#40;', ')': '&#x29;'}


def spell_value(rng, value, must_escape, entities, p=0.2, never=''):
    """6.1 / 6.2: a spelling of ``value`` in which every character of ``must_escape`` is backslash-escaped or written as
    a character reference, a backslash that would otherwise escape its neighbour is doubled, an ampersand that would
    otherwise start a reference is escaped, and other punctuation is escaped at random."""
    out = []
    for i, c in enumerate(value):
        nxt = value[i + 1] if i + 1 < len(value) else ''
        forced = c in must_escape or (c == '\\' and (nxt in _PUNCT or nxt == '' or nxt in must_escape)) or (c == '&' and _ENT_START.match(value, i))
        if forced or (c in _PUNCT and c not in never and rng.random() < p):
            if entities and c in _ENT_OF and rng.random() < 0.3:
                out.append(_ENT_OF[c])
            else:
                out.append('\\' + c)
        else:
            out.append(c)
    return ''.join(out)


def balanced(value):
    d = 0
    for c in value:
        if c == '(':
            d += 1
        elif c == ')':
            d -= 1
            if d < 0:
                return False
    return d == 0


def spell_tail(rng, dest, title, tq, angle, entities, p=0.2):
    """(destination spelling, title spelling) for an inline link or a definition (6.3)."""
    if angle:
        d = spell_value(rng, dest, '<>', entities, p)
    else:
        # parentheses: all of them escaped, or (when they balance) none - escaping some changes the balance of the others
        if balanced(dest) and rng.random() < 0.7:
            d = spell_value(rng, dest, '', entities, p, never='()')
        else:
            d = spell_value(rng, dest, '()', entities, p)
        if d.startswith('<'):
            d = '\\' + d
    close = {'"': '"', "'": "'", '(': '()'}[tq]
    t = spell_value(rng, title, close, entities, p)
    return d, t


def gen_inlines(rng, opt, max_lines=3, allow_breaks=True, simple=False, min_atoms=1):
    """A sequence of atoms separated by single spaces or breaks; every line starts with a plain word (R1)."""
    n = rng.choice((1, 2, 3, 4, 5, 7)) if not simple else rng.choice((1, 2, 3))
    n = max(n, min_atoms)
    out = [('text', word(rng))]
    lines = 1
    for i in range(n - 1):
        if allow_breaks and lines < max_lines and rng.random() < 0.22:
            if rng.random() < 0.3:
                out.append(('hard', rng.choice(('  ', '   ', '\\', ' \\'))))
            else:
                out.append(('soft',))
            out.append(('text', word(rng)))
            lines += 1
            continue
        out.append(gen_atom(rng, opt, 0, simple=simple, breaks=allow_breaks and lines < max_lines))
    return out


def seq(nodes, atom, soft='\n', hard=None):
    """Joins atoms with single spaces; breaks replace the space."""
    out = []
    first = True
    for nd in nodes:
        k = nd[0]
        if k == 'soft':
            out.append(soft)
            first = True
            continue
        if k == 'hard':
            out.append(hard(nd) if hard else soft)
            first = True
            continue
        if not first:
            out.append(' ')
        first = False
        out.append(atom(nd))
    return ''.join(out)


def seq_md(nodes):
    return seq(nodes, atom_md, '\n', lambda nd: nd[1] + '\n')


def inl_md(nodes, sep=' '):
    """Markdown spelling; returns the list of physical lines."""
    return seq_md(nodes).split('\n')


def atom_md(nd):
    k = nd[0]
    if k == 'text':
        return nd[1]
    if k == 'code':
        t = '`' * nd[2]
        if isinstance(nd[3], tuple):
            return t + nd[3][0] + nd[1] + nd[3][1] + t        # 6.1: a line ending pads like a space
        pad = ' ' if nd[3] else ''
        return t + pad + nd[1] + pad + t
    if k == 'esc':
        return '\\' + nd[1] + nd[2]
    if k in ('em', 'strong'):
        d = nd[1] * (1 if k == 'em' else 2)
        return d + seq_md(nd[2]) + d + nd[3]
    if k == 'strike':
        return '~~' + seq_md(nd[1]) + '~~'
    if k in ('link', 'image'):
        text, dest, title, tq, angle = nd[1:6]
        if len(nd) > 6:
            dest, title_md = nd[6]
        else:
            title_md = title
        s = ('!' if k == 'image' else '') + '[' + seq_md(text) + ']('
        s += ('<' + dest + '>') if angle else dest
        if title:
            s += ' ' + tq + title_md + (')' if tq == '(' else tq)
        return s + ')'
    if k == 'reflink':
        # ('reflink', text_nodes, form, label_spelling, dest, title, image)
        text, form, label = nd[1], nd[2], nd[3]
        t = ('!' if nd[6] else '') + '[' + seq_md(text) + ']'
        if form == 'full':
            return t + '[' + label + ']'
        if form == 'collapsed':
            return t + '[]'
        return t
    if k == 'literal':
        return nd[2] if len(nd) > 2 else nd[1]
    if k == 'autolink' or k == 'email':
        return '<' + nd[1] + '>'
    if k == 'ent':
        return nd[1]
    if k == 'html':
        return nd[1]
    raise ValueError(k)


def esc(s):
    return s.replace('&', '&amp;').replace('<', '&lt;').replace('>', '&gt;')


def url_attr(dest):
    from urllib.parse import quote
    return _html.escape(quote(dest, safe='/#:()*?=%@+,&;'))


def inl_html(nodes):
    # ' \\' = a backslash break preceded by a space: the space stays text (6.7)
    return seq(nodes, atom_html, '\n', lambda nd: (' ' if nd[1] == ' \\' else '') + '<br />\n')


def atom_html(nd):
    k = nd[0]
    if k == 'text':
        return esc(nd[1])
    if k == 'code':
        return '<code>' + esc(nd[1].replace('\n', ' ')) + '</code>'
    if k == 'esc':
        return esc(nd[1]) + esc(nd[2])
    if k in ('em', 'strong'):
        return '<%s>%s</%s>%s' % (k, inl_html(nd[2]), k, nd[3])
    if k == 'strike':
        return '<del>' + inl_html(nd[1]) + '</del>'
    if k == 'link':
        text, dest, title = nd[1], nd[2], nd[3]
        t = ' title="%s"' % _html.escape(title) if title else ''
        return '<a href="%s"%s>%s</a>' % (url_attr(dest), t, inl_html(text))
    if k == 'image':
        text, dest, title = nd[1], nd[2], nd[3]
        t = ' title="%s"' % _html.escape(title) if title else ''
        return '<img src="%s" alt="%s"%s />' % (url_attr(dest), _html.escape(inl_plain(text)), t)
    if k == 'reflink':
        text, dest, title, image = nd[1], nd[4], nd[5], nd[6]
        t = ' title="%s"' % _html.escape(title) if title else ''
        if image:
            return '<img src="%s" alt="%s"%s />' % (url_attr(dest), _html.escape(inl_plain(text)), t)
        return '<a href="%s"%s>%s</a>' % (url_attr(dest), t, inl_html(text))
    if k == 'literal':
        return esc(nd[1])
    if k == 'autolink':
        return '<a href="%s">%s</a>' % (url_attr(nd[1]), esc(nd[1]))
    if k == 'email':
        return '<a href="mailto:%s">%s</a>' % (url_attr(nd[1]), esc(nd[1]))
    if k == 'ent':
        return esc(nd[2])
    if k == 'html':
        return nd[1]
    raise ValueError(k)


def atom_plain(nd):
    k = nd[0]
    if k == 'text':
        return nd[1]
    if k == 'code':
        return nd[1].replace('\n', ' ')
    if k == 'esc':
        return nd[1] + nd[2]
    if k in ('em', 'strong'):
        return inl_plain(nd[2]) + nd[3]
    if k == 'strike':
        return inl_plain(nd[1])
    if k in ('link', 'image', 'reflink'):
        return inl_plain(nd[1])
    if k == 'literal':
        return nd[1]
    if k in ('autolink', 'email'):
        return nd[1]
    if k == 'ent':
        return nd[2]
    if k == 'html':
        return ''
    return ''


def inl_plain(nodes):
    return seq(nodes, atom_plain, '\n')


# =====================================================================================
# block level: tree generation
# =====================================================================================

LEAF_KINDS = ['para', 'para', 'para', 'atx', 'setext', 'hr', 'fence', 'icode', 'table', 'html', 'refdef']
CONTAINER_KINDS = ['quote', 'list', 'list']


class Gen:
    def __init__(self, rng, opt):
        self.rng = rng
        self.opt = opt
        self.nblocks = 0
        self.defs = []          # (label, dest, title) in document order, filled at emission
        self.label_counter = 0

    # ---- tree ----
    def blocks(self, depth, in_quote=False, in_list=False, n=None):
        rng, opt = self.rng, self.opt
        if n is None:
            n = rng.choice((1, 1, 2, 2, 3, 4)) if depth else rng.choice((1, 2, 3, 4, 5, 6, 8))
        out = []
        for _ in range(n):
            if self.nblocks >= opt.max_blocks:
                break
            prev = out[-1] if out else None
            nd = self.block(depth, in_quote, in_list, prev, first=not out)
            if nd is None:
                continue
            out.append(nd)
        if not out:
            out.append(self.para())
        return out

    def block(self, depth, in_quote, in_list, prev, first):
        rng, opt = self.rng, self.opt
        self.nblocks += 1
        if depth < opt.max_depth and rng.random() < (0.30 if depth == 0 else 0.22):
            kind = rng.choice(CONTAINER_KINDS)
        else:
            kind = rng.choice(opt.leaf_kinds or LEAF_KINDS)
        if opt.prose and kind in ('hr', 'fence', 'icode', 'table', 'html', 'atx', 'setext'):
            kind = rng.choice(('para', 'para', 'para', kind))
        if opt.outline and kind in ('atx', 'setext'):
            kind = 'para'       # headings are placed by the outline profile itself
        # R6
        if kind == 'icode' and ((first and in_list and not opt.code_first_items) or (prev is not None and prev.kind in ('para', 'list', 'icode'))):
            kind = 'para'
        if kind == 'setext' and in_quote and not opt.setext_in_quote:
            kind = 'atx'
        if kind == 'table' and not opt.tables:
            kind = 'para'
        if kind == 'html' and not opt.html:
            kind = 'para'
        if kind == 'refdef' and not opt.refs:
            kind = 'para'
        # R5: two lists are never adjacent (a list directly after a list would merge with it, or - with another marker -
        # runs into known finding C03-trailing-blank-makes-single-item-list-loose)
        if kind == 'list' and prev is not None and prev.kind == 'list':
            # ... except that a list of another type (5.3: other bullet character / other delimiter / bullet vs ordered) after a
            # list is a spelling of two lists; a blank line always separates them (can_follow)
            if opt.adjacent_lists and self.rng.random() < 0.5:
                nd = self.list_(depth, in_quote)
                if nd.ordered == prev.ordered:
                    if nd.ordered:
                        nd.delim = ')' if prev.delim == '.' else '.'
                    else:
                        nd.bullet = next(c for c in '-+*' if c != prev.bullet)
                return nd
            kind = 'para'
        # a paragraph after a paragraph needs a blank line (always given); a paragraph after a quote/list whose last
        # leaf is a paragraph would be lazy continuation without the blank line (always given, see can_follow)
        return getattr(self, kind if kind != 'list' else 'list_')(depth, in_quote) if kind in ('quote', 'list') else getattr(self, kind)()

    def para(self):
        opt = self.opt
        return Node('para', inl=gen_inlines(self.rng, opt, simple=False, min_atoms=(3 if opt.prose else 1)))

    def atx(self):
        rng = self.rng
        level = rng.randint(1, 6)
        inl = gen_inlines(rng, self.opt, allow_breaks=False, simple=True) if rng.random() > 0.04 else []
        closing = rng.choice(('', '', '', '#', '##', '#' * level, '######## '))
        if not inl and self.opt.canonical:
            closing = ''           # an empty heading keeps no closing sequence in the renderer's own form
        return Node('atx', level=level, inl=inl, closing=closing.strip())

    def setext(self):
        rng = self.rng
        level = rng.choice((1, 2))
        inl = gen_inlines(rng, self.opt, max_lines=2, simple=True)
        if not self.opt.setext_space_hard_break:
            inl = [('hard', '\\') if x[0] == 'hard' else x for x in inl]
        return Node('setext', level=level, inl=inl,
                    under=('=' if level == 1 else '-') * rng.choice((1, 2, 3, 3, 5, 10)))

    def hr(self):
        return Node('hr', spell=self.rng.choice(('***', '___', '* * *', '---', '- - -', '_  _  _', '*****', '-----', '** * **')))

    def fence(self):
        rng = self.rng
        ch = rng.choice('`~')
        info = rng.choice(INFO)
        if ch == '~' and rng.random() < 0.15:
            info = rng.choice(INFO_TILDE)     # 4.5: the info string of a tilde fence may contain tildes and backticks
        n = rng.randint(0, 4)
        lines = [rng.choice(FENCE_LINES) for _ in range(n)]
        length = rng.choice((3, 3, 3, 4, 6))
        if ch == '~' and rng.random() < 0.3:
            lines.append('```')
        if length > 3 and rng.random() < 0.5:
            # 4.5: a shorter run of the fence character does not close the block (and what follows it is still code)
            lines.insert(rng.randint(0, len(lines)), ch * rng.randint(3, length - 1))
            lines.append(rng.choice(('# not a heading', 'not a heading', '===')))
        # content must not close the fence (4.5): no line of >= length fence chars only
        lines = [l for l in lines if not (l.strip() and set(l.strip()) == {ch} and len(l.strip()) >= length)]
        return Node('fence', ch=ch, length=length, info=info, lines=lines, closed=True, close_extra=rng.choice((0, 0, 0, 1, 3)),
                    indent=rng.choice((0, 0, 0, 1, 2, 3)))

    def icode(self):
        rng = self.rng
        lines = [rng.choice([l for l in FENCE_LINES if l.strip()]) for _ in range(rng.randint(1, 3))]
        if len(lines) > 1 and rng.random() < 0.3:
            lines.insert(1, '')
        return Node('icode', lines=lines)

    def table(self):
        rng = self.rng
        ncol = rng.randint(1, 4)
        aligns = [rng.choice((None, None, 'left', 'center', 'right')) for _ in range(ncol)]
        if self.opt.canonical:
            aligns = [None if a == 'left' else a for a in aligns]

        def cell():
            if rng.random() < 0.15 and self.opt.table_escaped_pipe:
                return [('text', word(rng)), ('literal', '|', '\\|'), ('text', word(rng))]
            for _ in range(20):
                c = gen_inlines(rng, self.opt, allow_breaks=False, simple=True)
                if '|' not in inl_md(c)[0]:
                    return c
            return [('text', word(rng))]
        header = [cell() for _ in range(ncol)]
        rows = [[cell() for _ in range(ncol)] for _ in range(rng.randint(0, 3))]
        outer = rng.random() < 0.7 or ncol == 1
        if outer and rng.random() < 0.3:
            # GFM tables: a cell may be empty ('| a |  | c |'; only spelled with the outer pipes, which delimit a first / last empty cell)
            for r in [header] + rows:
                for i in range(ncol):
                    if rng.random() < 0.25:
                        r[i] = []
        return Node('table', aligns=aligns, header=header, rows=rows, outer=outer)

    def html(self):
        rng = self.rng
        r = rng.random()
        if r < 0.45:
            return Node('html', cond=6, lines=list(rng.choice(HTML6)))
        if r < 0.65:
            return Node('html', cond=1, lines=list(rng.choice(HTML1)))
        if r < 0.85:
            return Node('html', cond=2, lines=list(rng.choice(HTML2)))
        return Node('html', cond=7, lines=list(rng.choice(HTML7)))

    def refdef(self):
        rng = self.rng
        self.label_counter += 1
        label = 'ref%d %s' % (self.label_counter, word(rng)) if rng.random() < 0.5 else 'ref%d' % self.label_counter
        title = rng.choice(TITLES) if rng.random() < 0.4 else ''
        angle = rng.random() < 0.15
        nd = Node('refdef', label=label, dest=rng.choice(ANGLE_DESTS) if angle else rng.choice(DESTS), angle=angle, title=title,
                  tq=rng.choice('"\'('), title_nl=rng.random() < 0.15 and not self.opt.canonical)
        if self.opt.rich_links and rng.random() < 0.3:
            t2 = rng.choice(RICH_TITLES) if rng.random() < 0.6 else nd.title
            d2, a2 = (rng.choice(RICH_DESTS), rng.random() < 0.3) if rng.random() < 0.6 else (nd.dest, nd.angle)
            plain = self.opt.rich_links == 'plain'
            sp = spell_tail(rng, d2, t2, nd.tq, a2, self.opt.entities and not plain, p=0.0 if plain else 0.2)
            if not plain or sp == (d2, t2):
                nd.title, nd.dest, nd.angle = t2, d2, a2
                nd.dest_md, nd.title_md = sp
                nd.spelled = True
        return nd

    def quote(self, depth, in_quote):
        return Node('quote', blocks=self.blocks(depth + 1, in_quote=True), space=self.rng.random() < 0.8,
                    indent=self.rng.choice((0, 0, 0, 0, 1, 2, 3)), blank_first=self.rng.random() < 0.06, blank_last=self.rng.random() < 0.06)

    def list_(self, depth, in_quote):
        rng, opt = self.rng, self.opt
        ordered = rng.random() < 0.4
        tight = rng.random() < 0.5 and not opt.force_loose
        items = []
        for _ in range(rng.choice((1, 2, 2, 3, 4))):
            if opt.empty_items and rng.random() < 0.04 and items:
                items.append(Node('item', blocks=[], pad=1, blank_start=False))
                continue
            if tight:
                bl = [self.para()]
                self.nblocks += 1
                r = rng.random()
                if depth + 1 < opt.max_depth and r < 0.3:
                    sub = self.list_(depth + 1, in_quote)
                    # 5.2: only a bullet list or an ordered list starting with 1, whose first item is not empty and does
                    # not begin with a blank line, can directly follow (interrupt) the paragraph
                    if sub.ordered:
                        sub.start = 1
                    if not sub.items[0].blocks:
                        sub.items[0] = Node('item', blocks=[self.para()], pad=1, blank_start=False)
                    sub.items[0].blank_start = False
                    bl.append(sub)
                elif r < 0.4:
                    bl.append(self.fence())
                elif r < 0.5 and depth + 1 < opt.max_depth:
                    bl.append(self.quote(depth + 1, in_quote))
            else:
                bl = self.blocks(depth + 1, in_quote=in_quote, in_list=True, n=rng.choice((1, 1, 2, 3)))
            items.append(Node('item', blocks=bl, pad=rng.choice((1, 1, 1, 2, 3, 4)),
                              blank_start=opt.blank_start_items and rng.random() < 0.05 and bl and bl[0].kind in ('para', 'atx', 'fence', 'hr')))
        if items and not items[-1].blocks and not opt.empty_last_item:
            items.append(Node('item', blocks=[self.para()], pad=1, blank_start=False))
        for it in items[1:]:
            if first_leaf_kind(it) == 'table' and not opt.table_first_in_item:
                it.blocks.insert(0, self.para())
        for it in items:
            if it.blocks and it.blocks[0].kind == 'hr':
                it.blocks[0].spell = '___'     # '- * * *' / '* * * *' would be a thematic break of its own (4.1)
        nd = Node('list', ordered=ordered, start=rng.choice((1, 1, 1, 0, 2, 7, 10, 99, 123456789)), delim=rng.choice('.)'), bullet=rng.choice('-+*'),
                  tight=tight, items=items, indent=rng.choice((0, 0, 0, 1, 2, 3)))
        return nd


# =====================================================================================
# block level: emission (Markdown spelling + line tracking)
# =====================================================================================

def deep_last(nd):
    """The last leaf block inside a container (None below an empty last item)."""
    while nd is not None and nd.kind in ('quote', 'list'):
        if nd.kind == 'quote':
            nd = nd.blocks[-1] if nd.blocks else None
        else:
            it = nd.items[-1] if nd.items else None
            nd = it.blocks[-1] if it is not None and it.blocks else None
    return nd


def can_follow(prev, nxt, opt=None):
    """May ``nxt`` directly follow ``prev`` without a blank line and still be the intended tree (R9)?"""
    pk, nk = prev.kind, nxt.kind
    if pk in ('quote', 'list'):
        # 5.1 / 5.2: a line without the container's prefix / indentation ends the container unless it is a lazy
        # continuation of a paragraph that is still open there
        leaf = deep_last(prev)
        if pk == 'quote' and nk != 'quote' and getattr(prev, 'blank_last', False) and opt is not None and not opt.canonical \
                and not (prev.blocks and prev.blocks[-1].kind == 'fence' and not prev.blocks[-1].closed):
            # the quote is written with a final empty '>' line: nothing is open that a following line could continue,
            # and no blank line is needed to end the quote (5.1)
            if nk == 'hr':
                return nxt.spell[0] in '*_'
            if nk == 'list':
                return False          # (kept apart: R5 and the tight/loose bookkeeping of the emitter)
            return True
        if leaf is None or nk in ('quote', 'list', 'icode', 'refdef'):
            return False
        if leaf.kind == 'para':
            return can_follow(leaf, nxt, opt)             # what can interrupt that paragraph also ends its lazy continuation
        if leaf.kind in ('atx', 'hr', 'setext') or (leaf.kind == 'fence' and leaf.closed):
            # (a setext heading is complete with its underline: the paragraph it was read from is not open any more)
            if nk in ('para', 'setext', 'table'):
                # nothing is open that the line could continue lazily: it starts a new paragraph after the container
                return bool(opt is None or opt.para_after_closed_container)
            if nk == 'hr':
                return nxt.spell[0] in '*_'
            return nk in ('atx', 'fence') or (nk == 'html' and nxt.cond != 7)
        return False
    if pk == 'para':
        if nk == 'atx' or nk == 'quote':
            return True                                   # 4.2 / 5.1: can interrupt a paragraph
        if nk == 'fence':
            return True                                   # 4.5
        if nk == 'hr':
            return nxt.spell[0] in '*_'                   # '---' would be a setext underline (4.3)
        if nk == 'list':
            first = nxt.items[0]
            if not first.blocks or first.blank_start:
                return False                              # an empty item cannot interrupt a paragraph (5.2)
            return (not nxt.ordered) or nxt.start == 1    # only a list starting with 1 can (5.2)
        if nk == 'html':
            return nxt.cond != 7                          # 4.6
        return False
    if pk == 'refdef':
        return nk in ('refdef', 'para', 'atx')           # 4.7: definitions may follow each other and be followed by other blocks directly
    if pk in ('atx', 'hr', 'setext'):
        return True
    if pk == 'fence':
        return prev.closed
    return False


def first_leaf_kind(item):
    """Kind of the block that shares the marker line of ``item`` (following first items of nested lists)."""
    while item.blocks and not item.blank_start:
        b = item.blocks[0]
        if b.kind == 'list':
            item = b.items[0]
            continue
        return b.kind
    return None


def check_tree(blocks, opt, ctx='doc', in_quote=False, last_chain=True):
    """The generator's safety rules as assertions (also protects tree-level minimisation from leaving the domain)."""
    prev = None
    for i, nd in enumerate(blocks):
        k = nd.kind
        is_last = last_chain and i == len(blocks) - 1
        if k == 'fence' and not nd.closed and not is_last:
            # whether blank lines between an unclosed fence and the end of its container are code is left to the
            # container rules; only the unambiguous shape is generated: the fence ends the document
            raise AssertionError('unclosed fence not at the end of the document')
        if k == 'list' and prev is not None and prev.kind == 'list':
            same = nd.ordered == prev.ordered and (nd.delim == prev.delim if nd.ordered else nd.bullet == prev.bullet)
            if same or not opt.adjacent_lists:
                raise AssertionError('R5: adjacent lists')
        if k == 'icode' and (prev is not None and prev.kind in ('para', 'list', 'icode') or (i == 0 and ctx == 'item' and not opt.code_first_items)):
            raise AssertionError('R6: indented code position')
        if k == 'setext' and in_quote and not opt.setext_in_quote:
            raise AssertionError('setext in quote (known finding)')
        if k == 'quote':
            if not nd.blocks:
                raise AssertionError('empty quote')
            check_tree(nd.blocks, opt, 'quote', True, is_last)
        if k == 'list':
            if not nd.items or not nd.items[0].blocks:
                raise AssertionError('first item empty')
            if not nd.items[-1].blocks and not opt.empty_last_item:
                raise AssertionError('last item empty (known finding)')
            for j, it in enumerate(nd.items):
                if it.blocks:
                    if it.blocks[0].kind == 'hr' and it.blocks[0].spell != '___':
                        raise AssertionError('hr spelling as first block of an item')
                    if j and first_leaf_kind(it) == 'table' and not opt.table_first_in_item:
                        raise AssertionError('table starts a later item (known finding)')
                    if it.blank_start and it.blocks[0].kind not in ('para', 'atx', 'fence', 'hr'):
                        raise AssertionError('blank-start item content')
                    check_tree(it.blocks, opt, 'item', in_quote, is_last and j == len(nd.items) - 1)
        prev = nd


class Emitter:
    def __init__(self, rng, opt, gen):
        self.rng, self.opt, self.gen = rng, opt, gen
        self.stats = {}
        self.after_list = False

    def stat(self, k):
        self.stats[k] = self.stats.get(k, 0) + 1

    def blocks(self, blocks, ctx, tight=False):
        """ctx: 'doc' | 'quote' | 'item'.  Returns list of Line."""
        rng, opt = self.rng, self.opt
        out = []
        prev = None
        self.had_blank = False
        had_blank = False
        for nd in blocks:
            # a block that follows a list must not be indented: 1-3 spaces could reach the content offset of the last item (5.2)
            self.after_list = prev is not None and prev.kind == 'list'
            lines = self.block(nd, ctx)
            if prev is not None:
                direct = can_follow(prev, nd, opt)
                if tight:
                    if not direct:
                        raise AssertionError('tight item sequence %s -> %s needs a blank line' % (prev.kind, nd.kind))
                    self.stat('adjacent-in-tight-item:%s>%s' % (prev.kind, nd.kind))
                elif direct and opt.omit_blank and not opt.canonical and rng.random() < 0.35:
                    self.stat('blank-omitted:%s>%s' % (prev.kind, nd.kind))
                else:
                    nblank = 1
                    if ctx == 'doc' and not opt.canonical and rng.random() < 0.08:
                        nblank = 2
                    out.extend(Line('', kind='blank') for _ in range(nblank))
                    had_blank = True
            out.extend(lines)
            if nd.kind == 'custom' and any(l.text == '' for l in lines) and getattr(nd, 'top_blocks', 2) > 1:
                had_blank = True      # the blank lines of a literal block separate blocks of their own
            prev = nd
        self.had_blank = had_blank
        return out

    def block(self, nd, ctx):
        lines = getattr(self, 'e_' + nd.kind)(nd, ctx)
        if lines:
            lines[0].starts.insert(0, nd)
        return lines

    def node_indent(self, nd, ctx):
        if ctx in ('doc', 'quote') and not self.opt.canonical and not self.after_list and self.opt.indent:
            return ' ' * nd.indent
        return ''

    def ind(self, ctx, maxi=3):
        if self.after_list:
            return ''
        if self.opt.indent and not self.opt.canonical and ctx in ('doc', 'quote') and self.rng.random() < 0.2:
            self.stat('block-indent')
            return ' ' * self.rng.randint(1, maxi)
        return ''

    def trail(self):
        """Trailing spaces after a line that ignores them (thematic break, ATX line, setext underline, closing fence)."""
        if self.opt.canonical or not self.opt.indent or self.rng.random() > 0.15:
            return ''
        self.stat('trailing-spaces')
        return self.rng.choice((' ', '  ', '   ', ' ', '  ', '\t', ' \t', '\t '))       # "spaces or tabs"

    def e_para(self, nd, ctx):
        rng, opt = self.rng, self.opt
        phys = inl_md(nd.inl)
        out = [Line(self.ind(ctx) + phys[0], kind='para')]
        for l in phys[1:]:
            lazy = False
            indent = ''
            if ctx != 'doc' and opt.lazy and not opt.canonical and rng.random() < 0.3:
                lazy = True
                self.stat('lazy-continuation-line')
            elif opt.indent and not opt.canonical and rng.random() < 0.2:
                n = rng.choice((1, 2, 3, 5, 8)) if opt.indent4_cont else rng.choice((1, 2, 3))
                indent = ' ' * n
                self.stat('continuation-indent-%s' % ('>=4' if n >= 4 else '<4'))
            out.append(Line(indent + l, lazy=lazy, kind='para-cont'))
        return out

    def e_atx(self, nd, ctx):
        text = inl_md(nd.inl)[0] if nd.inl else ''
        s = '#' * nd.level
        if text:
            s += ' ' + text
        if nd.closing and (text or True):
            s += ' ' + nd.closing
        if nd.closing:
            self.stat('atx-closing-sequence')
        return [Line(self.ind(ctx) + s + (self.trail() if (nd.closing or not text) else ''), kind='atx')]

    def e_setext(self, nd, ctx):
        phys = inl_md(nd.inl)
        ind = self.ind(ctx)
        out = [Line(ind + l, kind='setext') for l in phys]
        out.append(Line(self.ind(ctx) + nd.under + self.trail(), kind='setext-underline'))
        return out

    def e_hr(self, nd, ctx):
        return [Line(self.ind(ctx) + nd.spell + self.trail(), kind='hr')]

    def e_fence(self, nd, ctx):
        ind = self.node_indent(nd, ctx)
        nd.eff_indent = len(ind)
        if not nd.closed:
            while nd.lines and nd.lines[-1] == '':
                nd.lines.pop()      # whether trailing blank lines belong to an unclosed fence depends on its container: keep out
        f = nd.ch * nd.length
        if len(ind) >= 1 and nd.closed and not self.opt.canonical and self.rng.random() < 0.25:
            # 4.5: a line of fence characters indented four or more columns is content, also inside an indented fence
            # (written with ind + k spaces, k chosen so that the source line has at least four)
            k = self.rng.randint(4 - len(ind), 3)
            nd.lines.insert(self.rng.randint(0, len(nd.lines)), ' ' * k + f + nd.ch * self.rng.choice((0, 0, 2)))
            self.stat('fence-looking-content-line')
        need_sep = nd.info.startswith(nd.ch)          # (otherwise the info string would lengthen the fence)
        out = [Line(ind + f + ((self.rng.choice((' ', ' ', '\t', ' \t ')) if (self.rng.random() < 0.3 or need_sep) and nd.info and not self.opt.canonical else
                                (' ' if need_sep else '')) + nd.info), kind='fence')]
        for l in nd.lines:
            out.append(Line((ind + l) if l else '', kind='fence-body'))
        if nd.closed:
            out.append(Line(ind + f + nd.ch * (0 if self.opt.canonical else nd.close_extra) + self.trail(), kind='fence-close'))
        self.stat('fence:%s%d' % (nd.ch, nd.length))
        return out

    def e_icode(self, nd, ctx):
        return [Line(('    ' + l) if l else '', kind='icode') for l in nd.lines]

    def e_table(self, nd, ctx):
        if self.opt.canonical:
            return self.e_table_canonical(nd)

        def row(cells):
            s = ' | '.join(cells)
            return '| ' + s + ' |' if nd.outer else s
        out = [Line(row([inl_md(c)[0] if c else '' for c in nd.header]), kind='table')]
        delim = []
        for a in nd.aligns:
            delim.append({None: '---', 'left': ':---', 'center': ':---:', 'right': '---:'}[a])
        out.append(Line(row(delim), kind='table-delim'))
        for r in nd.rows:
            cells = [inl_md(c)[0] if c else '' for c in r]
            if nd.outer and len(cells) > 1 and cells[-1] == '' and self.rng.random() < 0.5:
                # "if a number of cells fewer than the number of cells in the header row, empty cells are inserted"
                while len(cells) > 1 and cells[-1] == '':
                    cells.pop()
                self.stat('table-short-row')
            out.append(Line(row(cells), kind='table-row'))
        return out

    def e_table_canonical(self, nd):
        """The Markdown renderer's own table layout: cells padded to the column width (minimum 3), ':' markers."""
        rows = [[inl_md(c)[0] if c else '' for c in nd.header]] + [[inl_md(c)[0] if c else '' for c in r] for r in nd.rows]
        widths = [max(3, max(len(r[i]) for r in rows)) for i in range(len(nd.aligns))]

        def fmt(cells):
            out = []
            for text, w, a in zip(cells, widths, nd.aligns):
                out.append('{0: ^{w}}'.format(text, w=w) if a == 'center' else text.rjust(w) if a == 'right' else text.ljust(w))
            return '| ' + ' | '.join(out) + ' |'
        lines = [Line(fmt(rows[0]), kind='table')]
        delim = []
        for w, a in zip(widths, nd.aligns):
            delim.append(':' + '-' * (w - 2) + ':' if a == 'center' else '-' * (w - 1) + ':' if a == 'right' else '-' * w)
        lines.append(Line('| ' + ' | '.join(delim) + ' |', kind='table-delim'))
        for r in rows[1:]:
            lines.append(Line(fmt(r), kind='table-row'))
        return lines

    def e_custom(self, nd, ctx):
        """A literal block (boundary strata of C03): fixed lines with a fixed expected HTML, always set off by blank lines."""
        return [Line(l, kind='custom') for l in nd.lines]

    def e_html(self, nd, ctx):
        ind = self.ind(ctx) if nd.cond in (6, 7) else ''
        if ind:
            nd.lines = [ind + nd.lines[0]] + nd.lines[1:]     # an HTML block is passed through verbatim, indentation included (4.6)
        return [Line(l, kind='html') for l in nd.lines]

    def e_refdef(self, nd, ctx):
        dest = getattr(nd, 'dest_md', nd.dest)
        dest = '<%s>' % dest if nd.angle else dest
        # 4.7: the label may span lines (white space in it collapses), the destination may stand on the line after the colon;
        # all of it is paragraph continuation text, so inside a container the later lines may be lazy
        label_lines = getattr(nd, 'label_md', nd.label).split('\n')
        tail_lazy = bool(getattr(nd, 'lazy_tail', False)) and self.opt.lazy and not self.opt.canonical and ctx != 'doc'
        out = [Line(self.ind(ctx) + '[' + label_lines[0], kind='refdef')]
        for more in label_lines[1:]:
            out.append(Line(more, lazy=tail_lazy, kind='refdef-label'))
        if getattr(nd, 'dest_nl', False) and not self.opt.canonical:
            out[-1].text += ']:'
            out.append(Line('  ' + dest, lazy=tail_lazy, kind='refdef-dest'))
            self.stat('definition-destination-on-its-own-line')
        else:
            out[-1].text += ']: ' + dest
        if len(label_lines) > 1:
            self.stat('definition-label-spans-lines')
        if nd.title:
            tq = nd.tq
            if getattr(nd, 'spelled', False):
                pass                     # spell_tail() escaped whatever the chosen quotes require
            elif (tq == '"' and '"' in nd.title) or (tq == "'" and "'" in nd.title) or (tq == '(' and ('(' in nd.title or ')' in nd.title)):
                tq = next(q for q in '"\'(' if not ((q == '"' and '"' in nd.title) or (q == "'" and "'" in nd.title) or (q == '(' and '(' in nd.title)))
            t = tq + getattr(nd, 'title_md', nd.title) + (')' if tq == '(' else tq)
            if nd.title_nl:
                out.append(Line('  ' + t, lazy=tail_lazy, kind='refdef-title'))
            else:
                out[-1].text += ' ' + t
        elif getattr(nd, 'empty_title', False) and not self.opt.canonical:
            # 4.7 / 6.3: a title may be empty - the definition stands, the link just has no title
            t = {'"': '""', "'": "''", '(': '()'}[nd.tq]
            if nd.title_nl:
                out.append(Line('  ' + t, lazy=tail_lazy, kind='refdef-title'))
            else:
                out[-1].text += ' ' + t
            self.stat('definition-with-empty-title')
        if tail_lazy and len(out) > 1:
            self.stat('definition-continued-lazily')
        self.gen.defs.append((nd.label, nd.dest, nd.title))
        return out

    def e_quote(self, nd, ctx):
        ind = self.node_indent(nd, ctx)
        inner = self.blocks(nd.blocks, 'quote')
        if getattr(nd, 'blank_last', False) and not self.opt.canonical and not (nd.blocks and nd.blocks[-1].kind == 'fence' and not nd.blocks[-1].closed):
            inner = inner + [Line('', kind='blank')]      # ... and may end with one
            self.stat('quote-ends-with-blank-line')
        if getattr(nd, 'blank_first', False) and not self.opt.canonical:
            inner = [Line('', kind='blank')] + inner      # a quote may begin with a blank line: '>' alone (5.1)
            self.stat('quote-begins-with-blank-line')
        out = []
        prev_text = ''
        for ln in inner:
            this_text = ln.text
            if ln.lazy and not self.opt.lazy_after_indented and prev_text.startswith('    '):
                # known finding C03-lazy-after-indented-in-quote: keep the quote marker on this line (it stays a lazy
                # continuation line for the list items inside the quote)
                ln.lazy = False
                self.stat('lazy-line-kept-quote-marker')
            prev_text = this_text
            if ln.lazy:
                out.append(ln)
                continue
            if ln.text == '':
                ln.text = ind + ('> ' if self.opt.canonical else '>')     # the renderer's own form keeps the space
            else:
                sp = ' ' if (nd.space or self.opt.canonical or ln.text.startswith((' ', '\t'))) else ''
                ln.text = ind + '>' + sp + ln.text
            out.append(ln)
        self.stat('quote:%s' % ('> ' if nd.space else '>'))
        return out

    def e_list(self, nd, ctx):
        rng, opt = self.rng, self.opt
        ind = self.node_indent(nd, ctx)
        out = []
        num = nd.start
        for i, item in enumerate(nd.items):
            marker = ('%d%s' % (num, nd.delim)) if nd.ordered else nd.bullet
            num += 1
            if i and not nd.tight:
                out.append(Line('', kind='blank'))
            item_lines = self.item(item, ind, marker, nd)
            item_lines[0].starts.insert(0, item)
            out.extend(item_lines)
        # 5.3: loose iff items are separated by blank lines or an item directly contains two blocks with a blank line between
        nd.eff_tight = not ((not nd.tight and len(nd.items) > 1) or any(getattr(it, 'had_blank', False) for it in nd.items))
        self.stat('list:%s:%s' % ('ordered' if nd.ordered else 'bullet', 'tight' if nd.eff_tight else 'loose'))
        return out

    def item(self, item, ind, marker, lst):
        opt = self.opt
        if not item.blocks:
            self.stat('empty-list-item')
            return [Line(ind + marker, kind='item-empty')]
        inner = self.blocks(item.blocks, 'item', tight=lst.tight)
        item.had_blank = self.had_blank
        code_first = item.blocks[0].kind == 'icode'
        if inner and inner[0].text.startswith(' ') and not item.blank_start and not code_first:
            raise AssertionError('first line of item content starts with a space (would change the content offset, 5.2)')
        pad = 1 if opt.canonical or code_first else item.pad
        if code_first:
            if item.blank_start:
                raise AssertionError('item that begins with a blank line and then indented code')
            self.stat('item-begins-with-indented-code')       # 5.2 rule 2: the content starts one column after the marker
        out = []
        if item.blank_start:
            self.stat('item-begins-with-blank-line')
            w = len(ind) + len(marker) + 1
            out.append(Line(ind + marker, kind='item-marker-only'))
            rest = inner
        else:
            w = len(ind) + len(marker) + pad
            first = inner[0]
            first.text = ind + marker + ' ' * pad + first.text
            if code_first:
                first.kind = 'icode-after-marker'      # (a code line of '-' / '*' characters behind a bullet reads as a thematic break: checked at the end)
            out.append(first)
            rest = inner[1:]
        item.width = w
        for ln in rest:
            if ln.lazy:
                out.append(ln)
            elif ln.text == '':
                out.append(ln)
            else:
                ln.text = ' ' * w + ln.text
                out.append(ln)
        self.stat('item-padding-%d' % pad)
        return out


# =====================================================================================
# expected HTML (written straight from the tree, mistletoe dialect for tables)
# =====================================================================================

def strip_top_level_p(html_text):
    """<p>/</p> removed where they are direct children (not inside a nested blockquote / list / table)."""
    import re
    out = []
    depth = 0
    for part in re.split(r'(</?[a-z0-9]+[^>]*>)', html_text):
        m = re.match(r'<(/?)([a-z0-9]+)', part)
        if m and m.group(2) in ('blockquote', 'ul', 'ol', 'table'):
            depth += -1 if m.group(1) else 1
        if m and m.group(2) == 'p' and depth == 0:
            continue
        out.append(part)
    return ''.join(out)


def blocks_html(blocks, tight=False):
    return '\n'.join(x for x in (block_html(b, tight) for b in blocks) if x is not None)


def block_html(nd, tight=False):
    k = nd.kind
    if k == 'para':
        s = inl_html(nd.inl)
        return s if tight else '<p>%s</p>' % s
    if k in ('atx', 'setext'):
        return '<h%d>%s</h%d>' % (nd.level, inl_html(nd.inl), nd.level)
    if k == 'hr':
        return '<hr />'
    if k == 'fence':
        lang = nd.info.split()[0] if nd.info.split() else ''
        attr = ' class="language-%s"' % _html.escape(lang) if lang else ''
        body = ''.join(esc(l) + '\n' for l in nd.lines)
        return '<pre><code%s>%s</code></pre>' % (attr, body)
    if k == 'icode':
        return '<pre><code>%s</code></pre>' % ''.join(esc(l) + '\n' for l in nd.lines)
    if k == 'quote':
        return '<blockquote>\n%s\n</blockquote>' % blocks_html(nd.blocks)
    if k == 'list':
        tag = 'ol' if nd.ordered else 'ul'
        attr = ' start="%d"' % nd.start if nd.ordered and nd.start != 1 else ''
        items = []
        for it in nd.items:
            if not it.blocks:
                items.append('<li></li>')
            else:
                items.append('<li>\n%s\n</li>' % blocks_html(it.blocks, tight=nd.eff_tight))
        return '<%s%s>\n%s\n</%s>' % (tag, attr, '\n'.join(items), tag)
    if k == 'table':
        def cells(row, tag):
            return ''.join('<%s align="%s">%s</%s>\n' % (tag, a or 'left', inl_html(c), tag) for c, a in zip(row, nd.aligns))
        s = '<table>\n<thead>\n<tr>\n%s</tr>\n</thead>\n<tbody>\n' % cells(nd.header, 'th')
        for r in nd.rows:
            s += '<tr>\n%s</tr>\n' % cells(r, 'td')
        return s + '</tbody>\n</table>'
    if k == 'html':
        return '\n'.join(nd.lines)
    if k == 'refdef':
        return None
    if k == 'custom':
        return strip_top_level_p(nd.html) if tight else nd.html
    raise ValueError(k)


# =====================================================================================
# expected token skeleton with line numbers (C13) and outline (C19)
# =====================================================================================

def expect_tokens(blocks):
    """[(token class name, line, children)] for the block tokens the tree stands for (Html token set)."""
    out = []
    for nd in blocks:
        k = nd.kind
        if k == 'para':
            out.append(('Paragraph', nd.line, []))
        elif k == 'atx':
            out.append(('Heading', nd.line, []))
        elif k == 'setext':
            out.append(('SetextHeading', nd.line, []))
        elif k == 'hr':
            out.append(('ThematicBreak', nd.line, []))
        elif k == 'fence':
            out.append(('CodeFence', nd.line, []))
        elif k == 'icode':
            out.append(('BlockCode', nd.line, []))
        elif k == 'html':
            out.append(('HtmlBlock', nd.line, []))
        elif k == 'quote':
            out.append(('Quote', nd.line, expect_tokens(nd.blocks)))
        elif k == 'list':
            out.append(('List', nd.line, [('ListItem', it.line, expect_tokens(it.blocks)) for it in nd.items]))
        elif k == 'table':
            rows = [('TableRow', nd.line + 2 + i, [('TableCell', nd.line + 2 + i, []) for _ in r]) for i, r in enumerate(nd.rows)]
            out.append(('Table', nd.line, rows, ('TableRow', nd.line, [('TableCell', nd.line, []) for _ in nd.header])))
        elif k == 'refdef':
            pass
    return out


def outline(blocks, acc=None):
    if acc is None:
        acc = []
    for nd in blocks:
        if nd.kind in ('atx', 'setext'):
            acc.append((nd.level, inl_plain(nd.inl)))
        elif nd.kind == 'quote':
            outline(nd.blocks, acc)
        elif nd.kind == 'list':
            for it in nd.items:
                outline(it.blocks, acc)
    return acc


def count_kinds(blocks, acc, path=''):
    for nd in blocks:
        p = path + '>' + nd.kind if path else nd.kind
        acc[p] = acc.get(p, 0) + 1
        if nd.kind == 'quote':
            count_kinds(nd.blocks, acc, p)
        elif nd.kind == 'list':
            for it in nd.items:
                count_kinds(it.blocks, acc, p + '>item')
    return acc


# =====================================================================================
# entry point
# =====================================================================================

def walk_nodes(blocks):
    for nd in blocks:
        yield nd
        if nd.kind == 'quote':
            yield from walk_nodes(nd.blocks)
        elif nd.kind == 'list':
            for it in nd.items:
                yield from walk_nodes(it.blocks)


def vary_label(rng, label):
    """Another spelling of the same label (6.3: case-insensitive, internal whitespace collapsed)."""
    words = label.split(' ')
    words = [w.upper() if rng.random() < 0.3 else (w.capitalize() if rng.random() < 0.3 else w) for w in words]
    return (' ' * rng.choice((1, 1, 2))).join(words)


def add_references(rng, blocks, headings=True):
    """Sprinkle reference links / images (full, collapsed, shortcut) that resolve to the definitions of the tree -
    wherever those sit (6.3: position-independent) - and a few unresolved ones that must stay literal text."""
    defs = [nd for nd in walk_nodes(blocks) if nd.kind == 'refdef']
    # paragraphs and (4.2 / 4.3) headings: a heading's inline content is parsed like a paragraph's
    paras = [nd for nd in walk_nodes(blocks) if nd.kind == 'para' or (headings and nd.kind in ('atx', 'setext') and nd.inl)]
    first = {}
    for d in defs:
        first.setdefault(d.label.casefold(), d)
    n = 0
    for p in paras:
        if rng.random() > 0.35:
            continue
        if defs and rng.random() < 0.85:
            d = first[rng.choice(defs).label.casefold()]
            form = rng.choice(('full', 'collapsed', 'shortcut'))
            image = rng.random() < 0.25
            if form == 'full':
                text = [('text', word(rng))] + ([('em', '*', [('text', word(rng))], '')] if rng.random() < 0.3 else [])
            else:
                text = [('text', vary_label(rng, d.label))]
            p.inl = p.inl + [('reflink', text, form, vary_label(rng, d.label), d.dest, d.title, image), ('text', word(rng))]
        else:
            p.inl = p.inl + [('literal', '[nolabel %s]' % word(rng)), ('text', word(rng))]
        n += 1
    return n


def generate(rng, profile='full', max_blocks=None, **overrides):
    """Never raises: a tree rejected by the generator's own safety rules (check_tree / emission asserts) is re-drawn."""
    kw = dict(PROFILES.get(profile, {}))
    kw.update(overrides)
    if max_blocks:
        kw['max_blocks'] = max_blocks
    last = None
    for attempt in range(50):
        opt = Opt(**kw)
        g = Gen(rng, opt)
        try:
            blocks = g.blocks(0)
            if opt.refs:
                add_references(rng, blocks, headings=not opt.outline)
            doc = emit(rng, opt, g, blocks, profile)
            doc.redrawn = attempt
            return doc
        except AssertionError as e:
            last = e
    raise RuntimeError('generator could not produce a valid document in 50 attempts: %s' % last)


def emit(rng, opt, g, blocks, profile='full', leading_blank=None):
    check_tree(blocks, opt)
    em = Emitter(rng, opt, g)
    lines = em.blocks(blocks, 'doc')
    if leading_blank is None:
        leading_blank = rng.choice((0, 0, 0, 0, 1, 2)) if not opt.canonical else 0
    lines = [Line('', kind='blank') for _ in range(leading_blank)] + lines
    if opt.ws_blank_lines and not opt.canonical:
        # 2.1: a line that contains only spaces or tabs is a blank line too, however long it is
        for ln in lines:
            if ln.kind == 'blank' and rng.random() < 0.15:
                ln.text += rng.choice((' ', '  ', '   ', '    ', '     ', '        ', '\t', ' \t', '  \t '))
                em.stat('blank-line-with-white-space')
            elif ln.kind == 'blank' and opt.odd_blank_lines and ln.text == '' and rng.random() < 0.05:
                # (only where no tree oracle is involved: the parser takes a line of form feeds, no-break or em spaces for
                # a blank line - finding C04/C14-unicode-whitespace - and must at least do so consistently on a round trip)
                ln.text = rng.choice(('\x0c', '\xa0', '\u2003', '\x0b', ' \xa0 ', '\x1c'))
                em.stat('blank-line-of-odd-white-space')
    import re
    hr = re.compile(r'^(?:[> ]|[-+*] +|\d{1,9}[.)] +)*([-_*])(?: *\1){2,} *$')
    for ln in lines:
        if ln.kind not in ('hr', 'fence-body', 'icode', 'html', 'setext-underline', 'table-delim') and hr.match(ln.text):
            raise AssertionError('a line of nested bullet markers reads as a thematic break (4.1)')
    for i, ln in enumerate(lines):
        for nd in ln.starts:
            nd.line = i + 1
    d = Doc()
    d.profile = profile
    d.blocks = blocks
    d.text = '\n'.join(ln.text for ln in lines) + '\n'
    h = blocks_html(blocks)
    d.html = h + '\n' if h else ''
    d.tokens = expect_tokens(blocks)
    d.defs = list(g.defs)
    d.outline = outline(blocks)
    d.stats = em.stats
    d.kinds = count_kinds(blocks, {})
    d.nlines = len(lines)
    return d
