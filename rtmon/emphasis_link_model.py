"""
Transcription of the CommonMark 0.30 appendix "An algorithm for parsing nested
emphasis and links" for inline text over a small token alphabet:

    words, spaces, '*' / '_' runs, '[', '![', ']' and the one inline link tail '(u)'

(the tail only ever appears directly after a ']', so "is this an inline link?"
is decided by looking at the three characters after the bracket; there are no
link reference definitions, so full / collapsed / shortcut references never
resolve).  The emphasis part is rtmon.emphasis_model (process emphasis with a
stack bottom = the sub-list handed in).  Independent of mistletoe; validated
against the spec corpus on every run of C06.

    look for link or image (on ']'):
      - topmost bracket delimiter; none -> literal ']'
      - inactive -> remove it, literal ']'
      - active, followed by '(u)' -> link / image node whose children are the
        nodes after the opener, with process-emphasis run on the delimiters
        above the opener; the opener and everything above leave the stack;
        after a *link* every earlier '[' becomes inactive (no links in links)
      - otherwise -> remove the opener, literal ']'
    at the end: process emphasis on whatever is left (stack bottom = none).
"""
from . import emphasis_model as em

TAIL = '(u)'


class Bracket:
    __slots__ = ('image', 'active')

    def __init__(self, image):
        self.image, self.active = image, True

    @property
    def text(self):
        return '![' if self.image else '['


def scan(text):
    """-> list of str | em.Delim | Bracket | ('close', has_tail)"""
    out = []
    buf = []
    i, n = 0, len(text)

    def flush():
        if buf:
            out.append(''.join(buf))
            del buf[:]
    while i < n:
        c = text[i]
        if c in '*_':
            j = i
            while j < n and text[j] == c:
                j += 1
            before = text[i - 1] if i > 0 else None
            after = text[j] if j < n else None
            left = (not em.is_ws(after)) and (not em.is_punct(after) or em.is_ws(before) or em.is_punct(before))
            right = (not em.is_ws(before)) and (not em.is_punct(before) or em.is_ws(after) or em.is_punct(after))
            if c == '*':
                can_open, can_close = left, right
            else:
                can_open = left and (not right or em.is_punct(before))
                can_close = right and (not left or em.is_punct(after))
            flush()
            out.append(em.Delim(c, j - i, can_open, can_close))
            i = j
        elif c == '!' and text.startswith('![', i):
            flush()
            out.append(Bracket(True))
            i += 2
        elif c == '[':
            flush()
            out.append(Bracket(False))
            i += 1
        elif c == ']':
            flush()
            has_tail = text.startswith(TAIL, i + 1)
            out.append(('close', has_tail))
            i += 1 + (len(TAIL) if has_tail else 0)
        else:
            buf.append(c)
            i += 1
    flush()
    return out


def _literal(nodes):
    return [x.text if isinstance(x, Bracket) else x for x in nodes]


def _emphasis(nodes, stats):
    """process emphasis over the delimiter runs among ``nodes`` (brackets among them are plain text here)."""
    plain = _literal(nodes)
    res, st = em.process(plain)
    for k, v in st.items():
        stats[k] = stats.get(k, 0) + v
    return res


def process(tokens):
    nodes = []
    stack = []          # Delim and Bracket objects, bottom first (all of them are also in ``nodes``)
    stats = {'links': 0, 'images': 0, 'inactive_hits': 0, 'no_tail': 0, 'unmatched_close': 0}
    for tok in tokens:
        if isinstance(tok, (em.Delim, Bracket)):
            nodes.append(tok)
            stack.append(tok)
        elif isinstance(tok, tuple):
            has_tail = tok[1]
            lit = ']' + (TAIL if has_tail else '')
            k = len(stack) - 1
            while k >= 0 and not isinstance(stack[k], Bracket):
                k -= 1
            if k < 0:
                stats['unmatched_close'] += 1
                nodes.append(lit)
                continue
            opener = stack[k]
            if not opener.active or not has_tail:
                stats['inactive_hits' if not opener.active else 'no_tail'] += 1
                del stack[k]
                nodes[nodes.index(opener)] = opener.text
                nodes.append(lit)
                continue
            a = nodes.index(opener)
            inner = _emphasis(nodes[a + 1:], stats)
            del stack[k:]
            nodes[a:] = [em.Elem('img' if opener.image else 'a', inner)]
            stats['images' if opener.image else 'links'] += 1
            if not opener.image:
                for b in stack:
                    if isinstance(b, Bracket) and not b.image:
                        b.active = False
        else:
            nodes.append(tok)
    return _emphasis(nodes, stats), stats


def plain(nodes):
    out = []
    for x in nodes:
        if isinstance(x, em.Elem):
            out.append(plain(x.children))
        else:
            out.append(x)
    return ''.join(out)


def to_html(nodes):
    out = []
    for x in nodes:
        if isinstance(x, em.Elem):
            if x.tag == 'a':
                out.append('<a href="u">%s</a>' % to_html(x.children))
            elif x.tag == 'img':
                out.append('<img src="u" alt="%s" />' % em._esc(plain(x.children)))
            else:
                out.append('<%s>%s</%s>' % (x.tag, to_html(x.children), x.tag))
        else:
            out.append(em._esc(x))
    return ''.join(out)


def render(text):
    nodes, stats = process(scan(text))
    return to_html(nodes), stats
