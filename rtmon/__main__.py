import argparse
import importlib
import os
import sys

from . import core


def check_import():
    import mistletoe
    real = os.path.realpath(mistletoe.__file__)
    want = os.path.realpath(core.REPO) + os.sep
    if not real.startswith(want):
        print('INCONCLUSIVE reason=mistletoe imported from %s, expected under %s' % (real, want))
        sys.exit(core.EXIT_INCONCLUSIVE)


def setup():
    import hashlib
    import json
    check_import()
    path = os.path.join(core.HOME, 'vendor', 'commonmark-0.30.json')
    with open(path, 'rb') as f:
        data = f.read()
    want = open(path + '.sha256').read().split()[0]
    got = hashlib.sha256(data).hexdigest()
    assert got == want, 'vendored corpus checksum mismatch'
    assert len(json.loads(data)) == 652
    from . import contracts
    print('setup ok: corpus 652 examples sha256 verified; contracts backend = %s; code under test = %s'
          % (contracts.BACKEND, core.REPO))
    return 0


def main():
    ap = argparse.ArgumentParser(prog='check')
    ap.add_argument('prop', nargs='?')
    ap.add_argument('--setup', action='store_true')
    ap.add_argument('--tier', default=os.environ.get('VERIF_TIER', 'quick'), choices=['quick', 'thorough'])
    ap.add_argument('--seed', type=int, default=int(os.environ.get('VERIF_SEED', core.DEFAULT_SEED)))
    ap.add_argument('--replay')
    ap.add_argument('--worker', action='store_true')
    ap.add_argument('--shard', type=int, default=0)
    ap.add_argument('--nshards', type=int, default=1)
    ap.add_argument('--budget', type=float, default=60)
    ap.add_argument('--out')
    args = ap.parse_args()
    if args.setup:
        return setup()
    if not args.prop:
        ap.error('property id required')
    cov = None
    if args.worker:
        # the line-coverage tap starts before the code under test is imported, so that module-level lines count too
        from . import taps
        cov = taps.LineCoverage()
        cov.start()
    check_import()
    prop = importlib.import_module('rtmon.props.' + args.prop.lower())
    if args.worker:
        return core.worker_main(prop, args, cov)
    if args.replay:
        return core.main_replay(prop, args.replay)
    return core.main_check(prop, args.tier, args.seed)


if __name__ == '__main__':
    sys.exit(main())
