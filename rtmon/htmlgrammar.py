"""
Strict recogniser of the HTML renderer's output language (C08), independent of
mistletoe:

    output := ( text | entity | open-tag | void-tag | close-tag )*
    entity := &amp; | &lt; | &gt; | &quot; | &#x27;
    text   := any character except < > &
    tag    := <name( attr="value")*>   |  <name( attr="value")* />  |  </name>
    value  := no '"', '<', '>'

names and attributes come from a closed vocabulary; open/close tags must nest
properly and the stack must be empty at the end.
"""
import re

VOCAB = {
    'p': (), 'h1': (), 'h2': (), 'h3': (), 'h4': (), 'h5': (), 'h6': (), 'blockquote': (), 'pre': (),
    'code': ('class',), 'ul': (), 'ol': ('start',), 'li': (), 'em': (), 'strong': (), 'del': (),
    'a': ('href', 'title'), 'img': ('src', 'alt', 'title'), 'br': (), 'hr': (),
    'table': (), 'thead': (), 'tbody': (), 'tr': (), 'th': ('align',), 'td': ('align',),
}
VOID = {'img', 'br', 'hr'}
ENTITIES = ('&amp;', '&lt;', '&gt;', '&quot;', '&#x27;')

_tag = re.compile(r'<(/?)([A-Za-z][A-Za-z0-9]*)((?: [A-Za-z]+="[^"<>]*")*)( /)?>')
_attr = re.compile(r' ([A-Za-z]+)="([^"<>]*)"')


class Problem(Exception):
    def __init__(self, clause, pos, msg):
        super().__init__(msg)
        self.clause, self.pos, self.msg = clause, pos, msg


def scan(out, on_tag=None):
    """Raises Problem on the first deviation; returns statistics otherwise.
    ``on_tag(kind, name, attrs)`` is called for every tag (kind: open/void/close)."""
    i, n = 0, len(out)
    stack = []
    stats = {'tags': 0, 'entities': 0, 'attrs': 0}
    while i < n:
        c = out[i]
        if c == '<':
            m = _tag.match(out, i)
            if not m:
                raise Problem('malformed-tag-or-bare-lt', i, 'no well-formed tag at %r' % out[max(0, i - 30):i + 60])
            closing, name, attrs, selfclose = m.group(1), m.group(2), m.group(3), m.group(4)
            if name not in VOCAB:
                raise Problem('tag-outside-vocabulary', i, 'tag <%s> at %r' % (name, out[max(0, i - 30):i + 60]))
            stats['tags'] += 1
            if closing:
                if attrs or selfclose:
                    raise Problem('malformed-close-tag', i, out[i:i + 60])
                if not stack or stack[-1] != name:
                    raise Problem('improper-nesting', i, 'closing </%s> but open stack is %r near %r'
                                  % (name, stack[-4:], out[max(0, i - 40):i + 40]))
                stack.pop()
                if on_tag:
                    on_tag('close', name, ())
            else:
                pairs = _attr.findall(attrs)
                seen = set()
                for k, v in pairs:
                    if k not in VOCAB[name]:
                        raise Problem('attribute-outside-vocabulary', i, 'attribute %s on <%s>: %r' % (k, name, out[i:i + 80]))
                    if k in seen:
                        raise Problem('duplicate-attribute', i, out[i:i + 80])
                    seen.add(k)
                    stats['attrs'] += 1
                if name in VOID:
                    # '<br />' today; a plain '<br>' would be just as well-formed, so both spellings are accepted
                    if on_tag:
                        on_tag('void', name, pairs)
                else:
                    if selfclose:
                        raise Problem('non-void-self-closed', i, out[i:i + 60])
                    stack.append(name)
                    if on_tag:
                        on_tag('open', name, pairs)
            i = m.end()
        elif c == '>':
            raise Problem('bare-gt-in-text', i, out[max(0, i - 40):i + 40])
        elif c == '&':
            for e in ENTITIES:
                if out.startswith(e, i):
                    i += len(e)
                    stats['entities'] += 1
                    break
            else:
                raise Problem('bare-ampersand-in-text', i, out[max(0, i - 40):i + 40])
        else:
            j = i + 1
            while j < n and out[j] not in '<>&':
                j += 1
            i = j
    if stack:
        raise Problem('unclosed-tags-at-end', n, 'open at end: %r' % stack[-6:])
    return stats


def tag_sequence(out):
    seq = []
    scan(out, on_tag=lambda kind, name, attrs: seq.append(('/' if kind == 'close' else '') + name))
    return seq
