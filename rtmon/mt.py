"""Helpers around the code under test (public API only)."""
import importlib
import os
import traceback

import mistletoe
from mistletoe import block_token, span_token, Document

from .core import REPO

MT_DIR = os.path.join(os.path.realpath(REPO), 'mistletoe') + os.sep

_RENDERERS = {
    'Html': ('mistletoe.html_renderer', 'HtmlRenderer'),
    'Markdown': ('mistletoe.markdown_renderer', 'MarkdownRenderer'),
    'LaTeX': ('mistletoe.latex_renderer', 'LaTeXRenderer'),
    'Ast': ('mistletoe.ast_renderer', 'AstRenderer'),
    'Toc': ('mistletoe.contrib.toc_renderer', 'TocRenderer'),
    'GithubWiki': ('mistletoe.contrib.github_wiki', 'GithubWikiRenderer'),
    'MathJax': ('mistletoe.contrib.mathjax', 'MathJaxRenderer'),
    'Pygments': ('mistletoe.contrib.pygments_renderer', 'PygmentsRenderer'),
    'Jira': ('mistletoe.contrib.jira_renderer', 'JiraRenderer'),
    'XWiki20': ('mistletoe.contrib.xwiki20_renderer', 'XWiki20Renderer'),
}


def renderer_class(name):
    mod, cls = _RENDERERS[name]
    return getattr(importlib.import_module(mod), cls)


def reset():
    block_token.reset_tokens()
    span_token.reset_tokens()


def render(source, rname='Html', **opts):
    """Parse + render inside the renderer's context; the token lists are reset
    afterwards whatever happened (the harness must not leak state between
    cases; C11 uses its own driver)."""
    cls = renderer_class(rname) if isinstance(rname, str) else rname
    try:
        with cls(**opts) as r:
            return r.render(Document(source))
    finally:
        reset()


def parse(source, rname=None, scrub_first=False, **opts):
    """Returns the Document parsed under the token set of renderer ``rname``
    (None: default token set)."""
    if rname is None:
        if scrub_first:
            scrub()
        return Document(source)
    cls = renderer_class(rname) if isinstance(rname, str) else rname
    try:
        with cls(**opts):
            if scrub_first:
                scrub()
            return Document(source)
    finally:
        reset()


def html(source, **opts):
    return render(source, 'Html', **opts)


def exc_site(exc):
    """'ExcType@module.function' of the innermost frame inside the code under
    test (no line numbers: survives unrelated edits)."""
    tb = exc.__traceback__
    site = None
    for frame, _ in traceback.walk_tb(tb):
        fn = frame.f_code.co_filename
        if os.path.realpath(fn).startswith(MT_DIR):
            mod = os.path.relpath(os.path.realpath(fn), MT_DIR)[:-3].replace(os.sep, '.')
            qual = getattr(frame.f_code, 'co_qualname', frame.f_code.co_name)
            site = '%s.%s' % (mod, qual)
    return '%s@%s' % (type(exc).__name__, site or 'outside-mistletoe')


def tb_text(exc, limit=12):
    return ''.join(traceback.format_exception(type(exc), exc, exc.__traceback__, limit=-limit))


SCRUB_TEXT = '<x-scrub>\n\n<div>\n\n# s\n\n```\n```\n\ns\n'


def scrub():
    """Parse a neutral document so that every piece of class-level parser scratch
    (heading level/content/closing sequence, fence info, HTML end condition) holds a
    neutral value before a relational comparison starts.  Without it, residue of the
    previous case could mask a state leak between two blocks of one document."""
    try:
        Document(SCRUB_TEXT)
    except Exception:
        pass
