"""
Harness-side instrumentation.  Nothing here edits /repo: every tap replaces an
attribute of the imported modules and can be removed again.

LineCoverage   sys.monitoring LINE events, DISABLE after the first hit, only
               for files of the code under test (measured overhead ~8 %).
"""
import os
import sys
import types

from .core import REPO

MT_DIR = os.path.join(os.path.realpath(REPO), 'mistletoe') + os.sep


class LineCoverage:
    TOOL = 3  # sys.monitoring.PROFILER_ID + 1; any free id works

    def __init__(self):
        self.hits = {}
        self.active = False

    def start(self):
        mon = getattr(sys, 'monitoring', None)
        if mon is None:
            return
        try:
            mon.use_tool_id(self.TOOL, 'rtmon-cov')
        except ValueError:
            return
        hits = self.hits
        prefix = MT_DIR
        DISABLE = mon.DISABLE

        def on_line(code, line):
            fn = code.co_filename
            if fn.startswith(prefix):
                s = hits.get(fn)
                if s is None:
                    s = hits[fn] = set()
                s.add(line)
            return DISABLE

        mon.register_callback(self.TOOL, mon.events.LINE, on_line)
        mon.set_events(self.TOOL, mon.events.LINE)
        self.active = True

    def stop(self):
        if not self.active:
            return
        mon = sys.monitoring
        mon.set_events(self.TOOL, 0)
        mon.register_callback(self.TOOL, mon.events.LINE, None)
        mon.free_tool_id(self.TOOL)
        self.active = False

    def result(self):
        out = {}
        for fn, lines in self.hits.items():
            rel = os.path.relpath(fn, os.path.realpath(REPO))
            out[rel] = (sorted(lines), executable_lines(fn))
        return out


_exec_cache = {}


def executable_lines(path):
    if path in _exec_cache:
        return _exec_cache[path]
    try:
        with open(path, encoding='utf-8') as f:
            code = compile(f.read(), path, 'exec')
    except (OSError, SyntaxError):
        return 0
    lines = set()
    stack = [code]
    while stack:
        c = stack.pop()
        for _, _, ln in c.co_lines():
            if ln is not None and ln > 0:
                lines.add(ln)
        for const in c.co_consts:
            if isinstance(const, types.CodeType):
                stack.append(const)
    _exec_cache[path] = len(lines)
    return len(lines)
