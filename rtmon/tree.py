"""
Own view of a mistletoe token tree (documented attributes only), independent of
utils.traverse and ast_renderer so that those can be cross-checked against it.
"""

BLOCK_ATTRS = {
    'Document': (),
    'Heading': ('level',),
    'SetextHeading': ('level',),
    'Quote': (),
    'Paragraph': (),
    'BlockCode': ('language',),
    'CodeFence': ('language',),
    'List': ('loose', 'start'),
    'ListItem': ('leader', 'loose'),
    'Table': ('column_align',),
    'TableRow': ('row_align',),
    'TableCell': ('align',),
    'ThematicBreak': (),
    'HtmlBlock': (),
}
SPAN_ATTRS = {
    'RawText': ('content',),
    'Strong': (), 'Emphasis': (), 'Strikethrough': (), 'InlineCode': (),
    'Image': ('src', 'title'),
    'Link': ('target', 'title'),
    'AutoLink': ('target', 'mailto'),
    'EscapeSequence': (),
    'LineBreak': ('soft',),
    'HtmlSpan': ('content',),
    'Math': ('content',),
}


def children_of(tok):
    ch = tok.children
    return list(ch) if ch is not None else []


def walk(tok, parent=None, depth=0):
    """Depth-first; visits Table.header (kept outside children by design)."""
    yield tok, parent, depth
    hdr = getattr(tok, 'header', None) if type(tok).__name__ == 'Table' else None
    if hdr is not None:
        yield from walk(hdr, tok, depth + 1)
    for c in children_of(tok):
        yield from walk(c, tok, depth + 1)


def canon(tok, lines=False, shift=0, listitem_layout=False):
    """Comparison-friendly dump: (class, attrs, children)."""
    name = type(tok).__name__
    attrs = {}
    for a in BLOCK_ATTRS.get(name, SPAN_ATTRS.get(name, ())):
        attrs[a] = getattr(tok, a, '<missing>')
    if listitem_layout and name == 'ListItem':
        attrs['indentation'] = getattr(tok, 'indentation', None)
        attrs['prepend'] = getattr(tok, 'prepend', None)
    if lines and name in BLOCK_ATTRS and name != 'Document':
        ln = getattr(tok, 'line_number', None)
        attrs['line'] = ln + shift if isinstance(ln, int) else ln
    node = [name, attrs]
    if name == 'Table' and getattr(tok, 'header', None) is not None:
        node.append(['header', canon(tok.header, lines, shift, listitem_layout)])
    kids = tok.children
    if kids is not None:
        node.append([canon(c, lines, shift, listitem_layout) for c in kids])
    return node


def first_diff(a, b, path='root'):
    """Human-readable location of the first difference between two canon dumps."""
    if type(a) != type(b):
        return '%s: %r vs %r' % (path, a, b)
    if isinstance(a, list):
        if a and isinstance(a[0], str) and b and isinstance(b[0], str) and a[0] != b[0]:
            return '%s: node %s vs %s' % (path, a[0], b[0])
        for i, (x, y) in enumerate(zip(a, b)):
            d = first_diff(x, y, '%s/%s' % (path, a[0] if (i and isinstance(a[0], str)) else i) if isinstance(a, list) else path)
            if d:
                return d
        if len(a) != len(b):
            return '%s: %d vs %d entries (%s | %s)' % (path, len(a), len(b), _names(a), _names(b))
        return None
    if isinstance(a, dict):
        for k in sorted(set(a) | set(b)):
            if a.get(k, '<absent>') != b.get(k, '<absent>'):
                return '%s.%s: %r vs %r' % (path, k, a.get(k, '<absent>'), b.get(k, '<absent>'))
        return None
    return None if a == b else '%s: %r vs %r' % (path, a, b)


def _names(lst):
    return [x[0] if isinstance(x, list) and x and isinstance(x[0], str) else type(x).__name__ for x in lst][:8]


def diff_kind(a, b):
    """Coarse mechanism key for a tree difference: first differing node classes."""
    d = first_diff(a, b) or ''
    import re
    d = re.sub(r"'[^']*'", "'..'", d)
    d = re.sub(r'\d+', 'N', d)
    return d[:120]


def class_path(tok):
    names = []
    t = tok
    seen = 0
    while t is not None and seen < 64:
        names.append(type(t).__name__)
        t = getattr(t, 'parent', None)
        seen += 1
    return '>'.join(reversed(names))


# ---- tag skeleton of the HTML the tree stands for (C08) ----------------------

def skeleton(doc, include_raw=False):
    out = []
    _skel_block_list(children_of(doc), False, out)
    return out


def _skel_block_list(tokens, tight, out):
    for t in tokens:
        _skel_block(t, tight, out)


def _skel_block(t, tight, out):
    name = type(t).__name__
    if name == 'Paragraph':
        if not tight:
            out.append('p')
        _skel_inline(children_of(t), out)
        if not tight:
            out.append('/p')
    elif name in ('Heading', 'SetextHeading'):
        out.append('h%d' % t.level)
        _skel_inline(children_of(t), out)
        out.append('/h%d' % t.level)
    elif name == 'Quote':
        out.append('blockquote')
        _skel_block_list(children_of(t), False, out)
        out.append('/blockquote')
    elif name in ('BlockCode', 'CodeFence'):
        out.extend(['pre', 'code', '/code', '/pre'])
    elif name == 'List':
        tag = 'ol' if t.start is not None else 'ul'
        out.append(tag)
        for item in children_of(t):
            out.append('li')
            _skel_block_list(children_of(item), not t.loose, out)
            out.append('/li')
        out.append('/' + tag)
    elif name == 'Table':
        out.append('table')
        if getattr(t, 'header', None) is not None:
            out.extend(['thead', 'tr'])
            for cell in children_of(t.header):
                out.append('th')
                _skel_inline(children_of(cell), out)
                out.append('/th')
            out.extend(['/tr', '/thead'])
        out.append('tbody')
        for row in children_of(t):
            out.append('tr')
            for cell in children_of(row):
                out.append('td')
                _skel_inline(children_of(cell), out)
                out.append('/td')
            out.append('/tr')
        out.extend(['/tbody', '/table'])
    elif name == 'ThematicBreak':
        out.append('hr')
    elif name == 'HtmlBlock':
        pass
    else:
        out.append('?' + name)


_INLINE_TAG = {'Strong': 'strong', 'Emphasis': 'em', 'Strikethrough': 'del', 'Link': 'a'}


def _skel_inline(tokens, out):
    for t in tokens:
        name = type(t).__name__
        if name in _INLINE_TAG:
            out.append(_INLINE_TAG[name])
            _skel_inline(children_of(t), out)
            out.append('/' + _INLINE_TAG[name])
        elif name == 'InlineCode':
            out.extend(['code', '/code'])
        elif name == 'AutoLink':
            out.extend(['a', '/a'])
        elif name == 'Image':
            out.append('img')
        elif name == 'LineBreak':
            if not t.soft:
                out.append('br')
        elif name in ('RawText', 'EscapeSequence', 'HtmlSpan'):
            pass
        else:
            out.append('?' + name)
