"""
Independent, spec-derived predicate "this paragraph has no Markdown meaning"
(C14).  It must only ACCEPT truly inert paragraphs; rejecting too much merely
costs reach.  Each test cites the CommonMark 0.30 / GFM clause it comes from.
Returns None when inert, else the reason (for the rejected-by-predicate counts).
"""
import re

from . import emphasis_model

ATX = re.compile(r'^ {0,3}#{1,6}(?:[ \t]|$)')                       # 4.2
SETEXT_OR_DELIM_ROW = re.compile(r'^ {0,3}[|: \t=-]*[=-][|: \t=-]*$')  # 4.3 underline / GFM delimiter row (over-approx.)
HR = re.compile(r'^ {0,3}([-_*])(?:[ \t]*\1){2,}[ \t]*$')            # 4.1
FENCE = re.compile(r'^ {0,3}(?:`{3,}|~{3,})')                        # 4.5
BULLET = re.compile(r'^ {0,3}[-+*](?:[ \t]+(\S)?|$)')                # 5.2
ORDERED = re.compile(r'^ {0,3}([0-9]{1,9})[.)](?:[ \t]+(\S)?|$)')    # 5.2 (ASCII digits)
QUOTE = re.compile(r'^ {0,3}>')                                      # 5.1
HTML = re.compile(r'^ {0,3}<')                                       # 4.6 (over-approx.: any line starting with <)
CODE = re.compile(r'^(?: {4}| {0,3}\t)')                             # 4.4
_ENTITY_SHAPE = re.compile(r'&(?:#[0-9]{1,7}|#[xX][0-9a-fA-F]{1,6}|([A-Za-z0-9]{1,32}));')  # 6.2


class _Entity:
    """6.2: a numeric reference, or '&' + the exact name of an HTML5 entity + ';' (anything else is literal text)."""
    @staticmethod
    def search(text):
        from html.entities import html5
        for m in _ENTITY_SHAPE.finditer(text):
            if m.group(1) is None or (m.group(1) + ';') in html5:
                return m
        return None


ENTITY = _Entity


def line_reason(line, k, setext=True):
    """k = 0 for the first line of the paragraph; setext=False: the parser was told not to form setext headings
    (Paragraph.parse_setext = False), so a line of '=' is paragraph text (a line of '-' is still a thematic break or a delimiter row)."""
    if line.strip(' \t') == '':
        return 'blank line'
    lead = line[:len(line) - len(line.lstrip(' \t'))]
    if '\t' in line[len(lead):]:
        return 'tab'
    if '\t' in lead and k == 0:
        return 'tab'
    if k > 0 and ('\t' in lead or len(lead) >= 4):
        # 4.4 / 4.8: a continuation line indented by four or more columns (any leading whitespace that contains a tab
        # reaches column 4) cannot start a block - indented code does not interrupt a paragraph, every other block start
        # allows at most three columns; the setext underline (4.3) likewise.  A possible GFM delimiter row is kept out.
        rest = line[len(lead):]
        if ('|' in rest or ':' in rest) and SETEXT_OR_DELIM_ROW.match(rest):
            return 'setext underline / table delimiter row'
        if line.endswith('  ') or line.endswith('\\'):
            return 'hard line break'
        return None
    if ATX.match(line):
        return 'ATX heading start'
    if HR.match(line):
        return 'thematic break'
    if FENCE.match(line):
        return 'fence'
    if QUOTE.match(line):
        return 'block quote marker'
    if HTML.match(line):
        return 'line starts with <'
    m = BULLET.match(line)
    if m and (k == 0 or m.group(1)):
        return 'bullet list marker'        # an empty item cannot interrupt a paragraph (5.2)
    m = ORDERED.match(line)
    if m and (k == 0 or (m.group(2) and int(m.group(1)) == 1)):
        return 'ordered list marker'       # only a list starting with 1 can interrupt a paragraph (5.2)
    if k == 0 and CODE.match(line):
        return 'indented code'
    if k > 0 and SETEXT_OR_DELIM_ROW.match(line) and (setext or not re.fullmatch(r' {0,3}=+ *', line)):
        return 'setext underline / table delimiter row'
    if line.endswith('  ') or line.endswith('\\'):
        return 'hard line break'
    return None


def _delimiter_cells(line):
    t = line.strip(' \t')
    t = t[1:] if t.startswith('|') else t
    t = t[:-1] if t.endswith('|') else t
    return len(t.split('|'))


def paragraph_reason(lines, setext=True):
    for k, line in enumerate(lines):
        r = line_reason(line, k, setext)
        if r == 'setext underline / table delimiter row' and '|' in line and '|' not in lines[k - 1] and _delimiter_cells(line) >= 2:
            # GFM tables: "the header row must match the delimiter row in the number of cells" - a line without any pipe
            # is one cell, this delimiter row has more: no table (and with a pipe in it, no setext underline either)
            r = None
            if line.endswith('  ') or line.endswith('\\'):
                r = 'hard line break'
        if r:
            return r
    text = '\n'.join(l.lstrip(' \t').rstrip(' ') for l in lines)
    if '\\' in text:
        return 'backslash'
    if '`' in text:
        return 'backtick'
    if '[' in text and ']' in text[text.index('['):]:
        return 'bracket pair'
    if ']:' in text:
        return 'possible link definition'
    if '<' in text and '>' in text[text.index('<'):]:
        return 'angle bracket pair'
    if ENTITY.search(text):
        return 'character reference'
    if text.count('~') > 1:
        # GFM strikethrough: a pair of one- or two-tilde runs, the first able to open (something other than white space
        # follows it) and a later one able to close (something other than white space precedes it).  Tildes that cannot
        # pair under that reading ('~ 5 and ~ 10', '~5 to ~7') have no meaning; anything else is kept out
        if '~~' in text:
            return 'two tildes'
        pos = [i for i, c in enumerate(text) if c == '~']
        can_open = [i for i in pos if i + 1 < len(text) and not text[i + 1].isspace()]
        can_close = [i for i in pos if i > 0 and not text[i - 1].isspace()]
        if any(o < c for o in can_open for c in can_close):
            return 'two tildes'
    if any(c.isspace() and c not in ' \n' for c in ''.join(l[:1] + l[-1:] for l in lines)):
        return 'non-ASCII whitespace at a line end'
    nodes, stats = emphasis_model.process(emphasis_model.scan(text))
    if stats['matches']:
        return 'emphasis pair (delimiter algorithm)'
    return None
