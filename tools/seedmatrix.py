#!/usr/bin/env python3
"""Maintenance tool: Markdown table 'change | caught by (clause)' from seeded/*/meta.json.   tools/seedmatrix.py 7 9"""
import json, os, re, sys
HOME = os.path.dirname(os.path.dirname(os.path.abspath(__file__)))
lo, hi = int(sys.argv[1]), int(sys.argv[2])
rows = []
for name in sorted(os.listdir(os.path.join(HOME, 'seeded'))):
    m = re.match(r'(C\d\d)-(\d+)$', name)
    if not m or not lo <= int(m.group(2)) <= hi:
        continue
    meta = json.load(open(os.path.join(HOME, 'seeded', name, 'meta.json')))
    conf = meta.get('confirmed', {})
    cell = []
    for prop, res in conf.get('checks', {}).items():
        if isinstance(res, dict) and res.get('exit') == 1 and res.get('violation_lines'):
            line = res['violation_lines'][0]
            clause = re.search(r'clause=(\S+)', line).group(1)
            key = re.search(r'key=(.*?) occurrences=', line)
            cell.append('%s %s (%s)' % (prop, clause, key.group(1)[:60] if key else ''))
    if meta.get('detected_by'):
        cell.append('-> ' + str(meta['detected_by']))
    if meta.get('superseded'):
        cell.append('superseded by ' + meta['superseded']['since_repo_commit'])
    rows.append((name, '; '.join(cell) or 'NOT REPORTED'))
print('| change | caught by (clause, key) |\n|---|---|')
for r in rows:
    print('| %s | %s |' % r)
