#!/usr/bin/env python3
"""
Maintenance tool (not a MANIFEST command): confirm the seeded changes under
/verif/seeded and run the owning property's check against each.

    tools/seedtest.py [--tier quick] [--all-props P1,P2] [name ...]     name = C05-1 ...

For each change: scratch copy of /repo's working tree (outside /repo and /verif,
removed afterwards) -> apply patch -> unit suite must pass -> demo must fail with
the change and pass without -> ./check <prop> with VERIF_REPO=<scratch> must exit 1.
Writes seeded/<name>/meta.json.
"""
import json, os, re, shutil, subprocess, sys, tempfile, time

HOME = os.path.dirname(os.path.dirname(os.path.abspath(__file__)))
REPO = '/repo'
PY = '/venv/bin/python'


def sh(cmd, **kw):
    return subprocess.run(cmd, capture_output=True, text=True, **kw)


def main():
    args = sys.argv[1:]
    tier = 'quick'
    extra_props = []
    names = []
    while args:
        a = args.pop(0)
        if a == '--tier':
            tier = args.pop(0)
        elif a == '--also':
            extra_props = args.pop(0).split(',')
        elif a == '--no-pinned':
            os.environ['VERIF_NO_PINNED'] = '1'
        else:
            names.append(a)
    if not names:
        names = sorted(os.listdir(os.path.join(HOME, 'seeded')))
    rows = []
    for name in names:
        d = os.path.join(HOME, 'seeded', name)
        if not os.path.exists(os.path.join(d, 'patch.diff')):
            continue
        prop = name.split('-')[0]
        scratch = tempfile.mkdtemp(prefix='seedtest-')
        evdir = tempfile.mkdtemp(prefix='seedtest-ev-')
        try:
            files = sh(['git', '-C', REPO, 'ls-files']).stdout.split()
            for f in files:
                dst = os.path.join(scratch, f)
                os.makedirs(os.path.dirname(dst), exist_ok=True)
                shutil.copy2(os.path.join(REPO, f), dst)
            p = sh(['patch', '-p1', '--no-backup-if-mismatch', '-d', scratch, '-i', os.path.join(d, 'patch.diff')])
            meta = {'name': name, 'property': prop, 'patch_applies': p.returncode == 0, 'base_commit': sh(['git', '-C', REPO, 'rev-parse', '--short', 'HEAD']).stdout.strip()}
            if p.returncode != 0:
                meta['patch_output'] = (p.stdout + p.stderr)[-800:]
                rows.append(meta)
                print(name, 'PATCH DOES NOT APPLY')
                continue
            t = sh([PY, '-m', 'pytest', '-q', '-p', 'no:cacheprovider', '-x'], cwd=scratch, env=dict(os.environ, PYTHONDONTWRITEBYTECODE='1'))
            meta['unit_suite'] = t.stdout.strip().splitlines()[-1] if t.stdout.strip() else 'no output'
            meta['unit_suite_passes'] = t.returncode == 0
            demo_src = open(os.path.join(d, 'demo.py')).read()
            demo_src = re.sub(r'/tmp/wt/C\d\d', scratch, demo_src)
            demo = os.path.join(evdir, 'demo.py')
            open(demo, 'w').write(demo_src)
            env = dict(os.environ, PYTHONPATH=scratch, PYTHONDONTWRITEBYTECODE='1', C02_CORPUS=os.path.join(HOME, 'vendor', 'commonmark-0.30.json'))
            r1 = sh([PY, demo], env=env, cwd=evdir, timeout=900)
            demo0 = os.path.join(evdir, 'demo0.py')
            open(demo0, 'w').write(re.sub(r'/tmp/wt/C\d\d', REPO, open(os.path.join(d, 'demo.py')).read()))
            r0 = sh([PY, demo0], env=dict(os.environ, PYTHONPATH=REPO, PYTHONDONTWRITEBYTECODE='1', C02_CORPUS=os.path.join(HOME, 'vendor', 'commonmark-0.30.json')), cwd=evdir, timeout=900)
            meta['demo_exit_with_change'] = r1.returncode
            meta['demo_exit_without_change'] = r0.returncode
            meta['checks'] = {}
            for pr in [prop] + [x for x in extra_props if x != prop]:
                if not os.path.exists(os.path.join(HOME, 'rtmon', 'props', pr.lower() + '.py')):
                    meta['checks'][pr] = 'check not built'
                    continue
                t0 = time.time()
                c = sh([os.path.join(HOME, 'check'), pr, '--tier', tier],
                       env=dict(os.environ, VERIF_REPO=scratch, VERIF_EVIDENCE_DIR=evdir, VERIF_REPLAY_DIR=os.path.join(evdir, 'replays')), cwd=HOME, timeout=7200)
                viol = [l for l in c.stdout.splitlines() if l.startswith('VIOLATION')]
                meta['checks'][pr] = {'tier': tier, 'pinned_inputs': not os.environ.get('VERIF_NO_PINNED'), 'exit': c.returncode, 'violation_lines': viol[:4], 'wall_s': round(time.time() - t0, 1)}
            rows.append(meta)
            own = meta['checks'].get(prop)
            print(name, 'suite_ok=%s demo=%s/%s' % (meta['unit_suite_passes'], meta['demo_exit_with_change'], meta['demo_exit_without_change']),
                  'check_exit=%s' % (own['exit'] if isinstance(own, dict) else own), (own['violation_lines'][:1] if isinstance(own, dict) else ''))
            # keep notes from the author + what was run
            old = {}
            mp = os.path.join(d, 'meta.json')
            if os.path.exists(mp):
                old = json.load(open(mp))
            old.update({'breaks_property': prop, 'confirmed': meta, 'ran': [
                'patch -p1 < patch.diff on a scratch copy of /repo', 'pytest -q (unit suite) in the scratch copy',
                'demo.py against the scratch copy and against /repo', './check %s --tier %s with VERIF_REPO=<scratch>' % (prop, tier)]})
            json.dump(old, open(mp, 'w'), indent=1)
        finally:
            shutil.rmtree(scratch, ignore_errors=True)
            shutil.rmtree(evdir, ignore_errors=True)
    return 0


if __name__ == '__main__':
    sys.exit(main())
