"""Maintenance tool: tree-level minimisation of generator/parser disagreements.
   tools/genmin.py <from> <to> [profile] [n_examples]   |   tools/genmin.py seed <seed> [profile]
(run with PYTHONPATH=/verif:/repo /venv/bin/python)"""
import sys, random, collections, copy
import os; sys.path[:0]=['/verif', os.environ.get('VERIF_REPO','/repo')]
from rtmon import gen, mt
from rtmon.htmlnorm import normalize

def fails(blocks, opt, seeds=(1,2,3)):
    for sd in seeds:
        rng=random.Random(sd)
        g=gen.Gen(rng,opt)
        b=copy.deepcopy(blocks)
        try:
            d=gen.emit(rng,opt,g,b,leading_blank=0)
        except AssertionError:
            continue
        try:
            got=mt.html(d.text)
        except Exception as e:
            return d, 'EXC %r'%e
        if normalize(got)!=normalize(d.html):
            return d, got
    return None

def lists_of(blocks):
    """yield every block list (mutable) in the tree"""
    yield blocks
    for nd in blocks:
        if nd.kind=='quote':
            yield from lists_of(nd.blocks)
        elif nd.kind=='list':
            for it in nd.items:
                yield from lists_of(it.blocks)

def minimise(blocks,opt):
    progress=True
    while progress:
        progress=False
        # drop a block
        for L in list(lists_of(blocks)):
            i=0
            while i<len(L):
                if len(L)>1 or L is blocks and len(L)>1:
                    x=L.pop(i)
                    if fails(blocks,opt): progress=True; continue
                    L.insert(i,x)
                i+=1
        # drop list items
        def walk(bl):
            nonlocal progress
            for nd in bl:
                if nd.kind=='list':
                    i=0
                    while i<len(nd.items) and len(nd.items)>1:
                        x=nd.items.pop(i)
                        if fails(blocks,opt): progress=True; continue
                        nd.items.insert(i,x); i+=1
                    for it in nd.items: walk(it.blocks)
                elif nd.kind=='quote': walk(nd.blocks)
        walk(blocks)
        # unwrap containers: replace quote by its blocks
        for L in list(lists_of(blocks)):
            for i,nd in enumerate(list(L)):
                if nd.kind=='quote':
                    idx=L.index(nd); L[idx:idx+1]=nd.blocks
                    if fails(blocks,opt): progress=True
                    else: L[idx:idx+len(nd.blocks)]=[nd]
        # simplify inlines
        def simp(bl):
            nonlocal progress
            for nd in bl:
                if hasattr(nd,'inl') and len(nd.inl)>1:
                    old=nd.inl
                    for cand in ([('text','w')], old[:len(old)//2] or [('text','w')], old[len(old)//2:]):
                        if cand and cand[0][0] in ('soft','hard'): cand=cand[1:]
                        if cand and cand[-1][0] in ('soft','hard'): cand=cand[:-1]
                        if not cand or cand[0][0]!='text': continue
                        nd.inl=cand
                        if fails(blocks,opt): progress=True; break
                        nd.inl=old
                if nd.kind=='quote': simp(nd.blocks)
                elif nd.kind=='list':
                    for it in nd.items: simp(it.blocks)
        simp(blocks)
    return blocks

profile=sys.argv[3] if len(sys.argv)>3 else 'full'
seen=collections.Counter(); examples={}
for seed in (range(int(sys.argv[1]), int(sys.argv[2])) if sys.argv[1] != 'seed' else [int(sys.argv[2])]):
    rng=random.Random(seed)
    kw=dict(gen.PROFILES.get(profile,{}))
    opt=gen.Opt(**kw)
    g=gen.Gen(rng,opt)
    try:
        blocks=g.blocks(0)
        gen.add_references(rng, blocks)
        d=gen.emit(rng,opt,g,copy.deepcopy(blocks),leading_blank=0)
    except AssertionError as e:
        seen['GENERR']+=1; continue
    try: got=mt.html(d.text)
    except Exception as e: got='EXC'
    if normalize(got)==normalize(d.html): continue
    if not fails(blocks,opt):
        seen['spelling-specific (not reproduced by re-emission)']+=1
        examples.setdefault('spelling-specific', (d.text, d.html, got)); continue
    m=minimise(blocks,opt)
    r=fails(m,opt)
    key=' '.join(sorted(gen.count_kinds(m,{}).keys()))
    seen[key]+=1
    if key not in examples: examples[key]=(r[0].text, r[0].html, r[1])
for k,v in seen.most_common(): print(v,k)
for k,(t,h,g) in list(examples.items())[:int(sys.argv[4]) if len(sys.argv)>4 else 8]:
    print('=====',k); print(t); print('--- exp'); print(h); print('--- got'); print(g)
