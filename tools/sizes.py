#!/usr/bin/env python3
"""tools/sizes.py <quick sweep log> <quick seed> <thorough sweep log> <thorough seed>  ->  the Markdown table of DESIGN 0.2a"""
import re, sys
def read(path, seed):
    out = {}
    for line in open(path, errors='replace'):
        m = re.search(r'(C\d\d) (\w+) tier=\w+ seed=(\d+) evaluations=(\d+) distinct_nontrivial=(\d+) wall=([\d.]+)s', line)
        if m and m.group(3) == seed:
            out[m.group(1)] = (m.group(2), int(m.group(4)), int(m.group(5)), float(m.group(6)))
    return out
q, t = read(sys.argv[1], sys.argv[2]), read(sys.argv[3], sys.argv[4])
print('| property | quick: evaluations | distinct non-trivial | wall | thorough: evaluations | distinct non-trivial | wall |')
print('|---|---|---|---|---|---|---|')
for i in range(1, 20):
    p = 'C%02d' % i
    a, b = q.get(p), t.get(p)
    f = lambda x: '%s | %s | %d s' % (format(x[1], ','), format(x[2], ','), round(x[3])) + ('' if x[0] == 'HELD' else ' (%s)' % x[0]) if x else '- | - | -'
    print('| %s | %s | %s |' % (p, f(a), f(b)))
