#!/usr/bin/env python3
"""
Maintenance tool: write the task files for one round of seeded changes.

    tools/mktasks.py <round> <style-file>

For every property Cxx: a scratch git worktree of /repo at /tmp/wt<round>/Cxx (outside /repo and /verif) and a task text
/tmp/seedout<round>/Cxx/TASK.md that contains nothing but the property's title, statement and quantifier, the rules for a
seeded change and the styles wanted this round.  Each sub-agent is started with "read TASK.md and do it" and sees nothing of /verif.
Afterwards: tools/ingest.sh /tmp/seedout<round> /tmp/wt<round> <first index> Cxx ... ; git -C /repo worktree remove --force ... ; worktree prune.
"""
import json, os, subprocess, sys

rnd, style = sys.argv[1], open(sys.argv[2]).read()
HOME = os.path.dirname(os.path.dirname(os.path.abspath(__file__)))
TEMPLATE = open(os.path.join(HOME, 'tools', 'seedtasks', 'TEMPLATE.md')).read()
for line in open(os.path.join(HOME, 'properties.jsonl')):
    prop = json.loads(line)
    p = prop['id']
    wt, out = '/tmp/wt%s/%s' % (rnd, p), '/tmp/seedout%s/%s' % (rnd, p)
    for k in '123':
        os.makedirs(os.path.join(out, k), exist_ok=True)
    if not os.path.isdir(wt):
        subprocess.run(['git', '-C', '/repo', 'worktree', 'add', '-q', '--detach', wt, 'HEAD'], check=True)
    text = (TEMPLATE.replace('@WT@', wt).replace('@OUT@', out).replace('@WTROOT@', '/tmp/wt%s' % rnd).replace('@P@', p)
            .replace('@TITLE@', prop['title']).replace('@STATEMENT@', prop['statement']).replace('@QUANT@', prop['quantifier']['text'])
            .replace('@STYLE@', style.strip()))
    open(os.path.join(out, 'TASK.md'), 'w').write(text)
print('round', rnd, 'ready')
