#!/usr/bin/env python3
"""Regenerates MANIFEST.json from tools/manifest_src.py (one place for the texts)."""
import json, os, sys
HERE = os.path.dirname(os.path.abspath(__file__))
sys.path.insert(0, HERE)
import manifest_src as src

home = os.path.dirname(HERE)
checks, na = [], []
ids = [json.loads(l)['id'] for l in open(os.path.join(home, 'properties.jsonl'))]
for pid in ids:
    if pid in src.CHECKS and os.path.exists(os.path.join(home, 'rtmon', 'props', pid.lower() + '.py')):
        c = src.CHECKS[pid]
        checks.append({
            'property_id': pid,
            'quick_cmd': './check %s --tier quick' % pid,
            'thorough_cmd': './check %s --tier thorough' % pid,
            'evidence_file': 'evidence/%s.json' % pid,
            'replay_cmd_template': './check %s --replay {path}' % pid,
            'engine': 'rtmon',
            'level_claimed': {'category': c['category'], 'text': c['text'], 'design_ref': c['design_ref']},
            'level_note': c['note'],
            'technique': c['technique'],
        })
    else:
        na.append({'property_id': pid, 'reason': src.NOT_APPLICABLE.get(pid, 'check not built yet in this session; see DESIGN.md section 5')})
m = {
    'version': 1,
    'setup_cmd': './check --setup',
    'hooks': src.HOOKS,
    'engines': [{'name': 'rtmon', 'path': 'rtmon/', 'serves_properties': [c['property_id'] for c in checks],
                 'kind_free_text': 'runtime monitoring: the real mistletoe code is driven by corpus / mutation / generated / '
                                   'enumerated / history workloads in sharded subprocesses while reference-model, relational '
                                   'and invariant oracles observe every execution at the public API boundary'}],
    'checks': checks,
    'notes': src.NOTES,
}
if na:
    m['not_applicable'] = na
json.dump(m, open(os.path.join(home, 'MANIFEST.json'), 'w'), indent=1)
print('checks:', len(checks), 'not_applicable:', len(na))
