#!/usr/bin/env python3
"""Maintenance tool: for one seeded change per property, run the owning check against the changed tree, then feed one
of the replay files it wrote to `./check Cxx --replay` twice: against the changed tree (must exit 1) and against /repo
(must exit 0)."""
import glob, json, os, shutil, subprocess, sys, tempfile
HOME = os.path.dirname(os.path.dirname(os.path.abspath(__file__)))
PICK = sys.argv[1:] or ['C01-5', 'C02-1', 'C03-2', 'C04-1', 'C05-1', 'C06-2', 'C07-3', 'C08-1', 'C09-2', 'C10-3', 'C11-2', 'C12-1', 'C13-1',
                        'C14-1', 'C15-2', 'C16-2', 'C17-2', 'C18-2', 'C19-1']
for name in PICK:
    prop = name.split('-')[0]
    scratch = tempfile.mkdtemp(prefix='replaytest-')
    ev = tempfile.mkdtemp(prefix='replaytest-ev-')
    try:
        files = subprocess.run(['git', '-C', '/repo', 'ls-files'], capture_output=True, text=True).stdout.split()
        for f in files:
            os.makedirs(os.path.dirname(os.path.join(scratch, f)), exist_ok=True)
            shutil.copy2(os.path.join('/repo', f), os.path.join(scratch, f))
        p = subprocess.run(['patch', '-p1', '-s', '-d', scratch, '-i', os.path.join(HOME, 'seeded', name, 'patch.diff')], capture_output=True, text=True)
        if p.returncode:
            print(name, 'patch does not apply'); continue
        env = dict(os.environ, VERIF_REPO=scratch, VERIF_EVIDENCE_DIR=ev, VERIF_REPLAY_DIR=os.path.join(ev, 'replays'), VERIF_NO_PINNED='1')
        subprocess.run([os.path.join(HOME, 'check'), prop, '--tier', 'quick'], capture_output=True, text=True, env=env, cwd=HOME)
        reps = sorted(glob.glob(os.path.join(ev, 'replays', prop, '*.json')))
        confirmed = [r for r in reps if str(json.load(open(r)).get('case', {}).get('confirmation', 'reproduced')).startswith('reproduced')]
        reps = confirmed or reps
        if not reps:
            print(name, 'no replay file written'); continue
        r1 = subprocess.run([os.path.join(HOME, 'check'), prop, '--replay', reps[0]], capture_output=True, text=True, env=env, cwd=HOME)
        env2 = dict(os.environ, VERIF_EVIDENCE_DIR=ev, VERIF_REPLAY_DIR=os.path.join(ev, 'replays2'))
        r0 = subprocess.run([os.path.join(HOME, 'check'), prop, '--replay', reps[0]], capture_output=True, text=True, env=env2, cwd=HOME)
        ok = r1.returncode == 1 and 'VIOLATION' in r1.stdout and r0.returncode == 0
        print(name, 'replay on changed tree exit=%d, on /repo exit=%d  %s' % (r1.returncode, r0.returncode, 'OK' if ok else 'PROBLEM'))
        if not ok:
            print('   changed:', (r1.stdout + r1.stderr)[-400:].replace('\n', ' | '))
            print('   repo   :', (r0.stdout + r0.stderr)[-400:].replace('\n', ' | '))
    finally:
        shutil.rmtree(scratch, ignore_errors=True)
        shutil.rmtree(ev, ignore_errors=True)
