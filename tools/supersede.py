import json, os, shutil, sys
name, commit, why = sys.argv[1], sys.argv[2], sys.argv[3]
d='/verif/seeded/%s/' % name
if os.path.exists(d+'patch.diff'):
    shutil.move(d+'patch.diff', d+'patch.original-base.diff')
p=d+'meta.json'; m=json.load(open(p)) if os.path.exists(p) else {}
m['superseded']={'since_repo_commit':commit,'why':why}
json.dump(m,open(p,'w'),indent=1)
print('superseded', name)
