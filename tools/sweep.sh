#!/bin/bash
# tools/sweep.sh <tier> <seed>...   run every check on the unchanged tree for the given seeds (maintenance; used with `vp run`)
tier=$1; shift
for seed in "$@"; do
  for i in 01 02 03 04 05 06 07 08 09 10 11 12 13 14 15 16 17 18 19; do
    out=$(VERIF_SEED=$seed VERIF_EVIDENCE_DIR=$PWD/out/sweep-ev VERIF_REPLAY_DIR=$PWD/out/sweep-replays-$seed ./check C$i --tier $tier 2>&1 | grep -v '^KNOWN-FINDING')
    echo "seed=$seed $(echo "$out" | tail -1)"
    echo "$out" | grep -E '^(VIOLATION|INCONCLUSIVE)' | head -5
  done
done
