#!/bin/bash
# maintenance: copy a sub-agent's seeded changes into /verif/seeded (ingest.sh <srcroot> <wtprefix> <firstindex> Cxx ...)
src=$1; wt=$2; first=$3; shift 3
for p in "$@"; do
  for k in 1 2 3; do
    [ -f $src/$p/$k/patch.diff ] || { echo "missing $src/$p/$k"; continue; }
    n=$((first + k - 1)); d=/verif/seeded/$p-$n
    mkdir -p $d
    cp $src/$p/$k/patch.diff $d/patch.diff
    sed "s#$wt/#/tmp/wt/#g" $src/$p/$k/demo.py > $d/demo.py
    [ -f $src/$p/$k/notes.md ] && cp $src/$p/$k/notes.md $d/notes.md
    for extra in $src/$p/$k/*.py; do b=$(basename $extra); [ $b = demo.py ] || sed "s#$wt/#/tmp/wt/#g" $extra > $d/$b; done
    echo "$d"
  done
done
