HOOKS = {
    'guard': 'MISTLETOE_VERIF',
    'enable': 'pure Python: nothing to build; ./check exports MISTLETOE_VERIF=1 and imports /repo in a fresh interpreter per shard. '
              'All taps are installed from the harness (attribute replacement, sys.monitoring, icontract); no hook lives in /repo.',
    'baseline_off_cmd': 'cd /repo && env -u MISTLETOE_VERIF /venv/bin/python -m pytest -ra -q -p no:cacheprovider --timeout=900 --continue-on-collection-errors',
    'source_commits': [],
    'add_only': True,
}
NOTES = ('Exit codes of every check: 0 held on everything explored (possibly with KNOWN-FINDING lines), 1 violation '
         '(VIOLATION property=<id> replay=<path>), 2 inconclusive (a shard died, the deciding monitor observed too little). '
         'VERIF_SEED and VERIF_TIER are honoured. Known findings: known_findings.json (read-only at run time).')
NOT_APPLICABLE = {}
CHECKS = {
    'C02': dict(category='exploration', design_ref='DESIGN.md section 5, C02',
                technique='exhaustive corpus replay with reference outputs (spec-driver normalisation)',
                text='All 652 normative examples are executed through the real parser and HTML renderer on every run, in two supply '
                     'forms, and compared with the vendored expected HTML; for this property the finite corpus IS the quantifier, so '
                     'the run is exhaustive.',
                note='Trusts the vendored corpus (sha256 pinned) and the 120-line re-implementation of the spec driver\'s normaliser, '
                     'which is applied to both sides and is only consulted when the bytes differ.'),
    'C01': dict(category='exploration', design_ref='DESIGN.md section 5, C01',
                technique='runtime monitoring: exception classifier + CPU-time watchdog round every parse/render of hostile, enumerated and stress inputs',
                text='Every execution (input x renderer configuration x supply form) of the real code is wrapped by a monitor that admits only '
                     'the property\'s documented refusals and enforces the 10 s budget in CPU time (confirmed in a fresh process). Reach comes '
                     'from ~220k (quick) / ~4.4M (thorough) executions over the spec corpus, mutations, random soups, generated documents, '
                     '~100 pathological shapes up to 4 KB, deterministic families (odd white space in every structural position, format-template and URL '
                     'payloads in every payload position), ALL strings over two 24-symbol alphabets up to length 3/4, and two-call sequences in which '
                     'the first call ends in an admitted refusal and the second (every renderer, one-call API, no reset in between) must not raise.',
                note='Held on the executions observed; nothing is claimed for inputs the workloads do not reach. Recursion errors are admitted '
                     'only when a conservative syntactic depth bound exceeds 100.'),
    'C06': dict(category='exploration', design_ref='DESIGN.md section 5, C06',
                technique='reference-model monitor: independent transcription of the CommonMark delimiter algorithm compared on exhaustively enumerated strings',
                text='Every string over {a,space,*,_,.} up to length 8 (quick) / 10 (thorough: 12.2 M strings) and over {a,*},{a,_} up to 14 is '
                     'rendered by the real parser and compared with an independent implementation of the spec\'s process-emphasis procedure; '
                     'random longer strings over a wider Unicode alphabet extend the reach. Within the enumerated bound the check is exhaustive.',
                note='Trusts the 150-line reference model, which is itself re-validated against the 102 in-alphabet examples of the spec on every run.'),
    'C08': dict(category='exploration', design_ref='DESIGN.md section 5, C08',
                technique='output invariant monitor: strict grammar of the renderer\'s output language + tag skeleton derived from the token tree; exhaustive sweep of the escaping helpers',
                text='Each rendering is recognised by a strict grammar (closed tag/attribute vocabulary, quoted attribute values without quotes or '
                     'angle brackets, escaped text, proper nesting) and its tag sequence must equal the skeleton computed from the token tree, so '
                     'text can add no tag. Raw HTML token content is bracketed by sentinels in the tree and cut out. The two escaping helpers are '
                     'swept over every Unicode scalar value.',
                note='Held on the renderings observed (payload-seeded documents, spec corpus x 8 option sets, generated and random inputs). The '
                     'grammar and the skeleton function are the trusted base.'),
    'C04': dict(category='exploration', design_ref='DESIGN.md section 5, C04',
                technique='relational monitor: canonical token trees of plain / quoted / list-indented parses of the same text compared',
                text='Three executions of the real parser per case (plain, every line quoted, text indented under a list marker) are recorded and '
                     'the wrapped tree must contain exactly the plain tree; ~57k (quick) / ~1.7M (thorough) embeddings over spec examples, nesting up to 128 levels, '
                     'mutations, generated and random inputs, markers "> ", ">", + - * N. N) with 1-9 digits and padding 1-4.',
                note='One mechanism is listed as a known finding (non-ASCII whitespace treated as a space; setext headings inside block quotes were repaired) and '
                     'attributed only when the same law holds on the counterfactually neutralised witness. Held on what was observed.'),
    'C05': dict(category='exploration', design_ref='DESIGN.md section 5, C05',
                technique='relational monitor: trees with line numbers of Document(A), Document(B) and Document(A+blank+B) compared',
                text='For every eligible pair the combined parse must equal A\'s blocks followed by B\'s blocks with shifted line numbers; pairs come '
                     'from a systematic matrix of scratch-writing A x scratch-consuming B plus spec/mutated/generated/random documents; the '
                     'parser scratch state is scrubbed before each parse so a leak between the two halves of one document cannot be masked.',
                note='Side conditions are over-approximated (any "]:" excludes the pair). Held on the pairs observed.'),
    'C12': dict(category='exploration', design_ref='DESIGN.md section 5, C12',
                technique='invariant at a hook: icontract class invariant on block_token.Document walking the finished tree; differential check of utils.traverse and AstRenderer against own walkers',
                text='An icontract invariant installed on the real Document class runs at the quiescent point right after construction and checks '
                     'sharing/cycles, parent links, child kinds, heading levels and list start on every tree parsed under five token sets; '
                     'traverse() (plain, klass, depth) and the AstRenderer JSON are compared with independent walkers of the same tree; a snapshot of '
                     'every token (plain attributes, header, child list) taken before and after the token set\'s own renderer rendered the tree must be equal.',
                note='Child kinds are taken from the class docstrings; Table.header is checked as a row without demanding a parent link.'),
    'C15': dict(category='exploration', design_ref='DESIGN.md section 5, C15',
                technique='relational monitor over supply forms, including the real CLI in subprocesses with ResourceWarning as error',
                text='The output of markdown(str) is compared with list / iterator / StringIO / real file object / final-newline variants and with '
                     '`python -m mistletoe -r R file...` (one and several files, repeated names) for five renderers; for texts whose meaning depends '
                     'on the definitions of their file, several files in one invocation are compared with single-file runs in processes of their own.',
                note='Inputs are restricted to \\n line ends (the property\'s domain). Held on the executions observed.'),
    'C18': dict(category='exploration', design_ref='DESIGN.md section 5, C18',
                technique='differential monitor: contrib renderer output vs HtmlRenderer output on extension-free documents',
                text='Byte-for-byte comparison of Toc, GithubWiki, MathJax (script line removed) and Pygments renderers with HtmlRenderer under all 8 '
                     'HTML option sets on spec, mutated, generated and random documents that meet each renderer\'s side condition.',
                note='Side conditions are over-approximated ("[[" / "$" anywhere in the text, any code block token).'),
    'C11': dict(category='fault_enumeration', design_ref='DESIGN.md section 5, C11',
                technique='history monitor with fault injection: enumerated and random sequences of renderer sessions, bare parses and parses that raise inside injected custom tokens; every probe compared with a fresh interpreter',
                text='Histories are sequences of renderer sessions, bare parses, Scheme sessions and injected faults (custom span/block tokens that '
                     'raise in find / constructor / start / read, at every list position, at top level / in a quote / in a list item, with the '
                     'exception propagating out of the context or caught inside it). Every render/parse step is a probe whose result must equal '
                     'the value computed by one fresh interpreter per (document, renderer, options); token lists are checked after every context '
                     'exit; one renderer INSTANCE entered twice (nothing / another session / a raising parse in between) and one instance reused '
                     'after a rendering that raised are steps too. All single steps, all histories of length <= 3 over a 41-step alphabet and the full fault x probe matrix are '
                     'enumerated, random histories (3-6 and 200 steps) extend the reach.',
                note='Probe documents are chosen so that each piece of class-level scratch state and each memoisable helper is consumed in two '
                     'different contexts. Nested renderer contexts and faults inside render functions are outside the statement.'),
    'C14': dict(category='exploration', design_ref='DESIGN.md section 5, C14',
                technique='reference-model monitor: independent spec-derived inertness predicate selects paragraphs whose only correct rendering is the escaped text',
                text='Paragraphs assembled from a 150-token vocabulary of tricky-but-inert tokens are filtered by an independent predicate (block '
                     'starts per line, inline triggers per paragraph, the C06 delimiter model) and must come out as exactly their escaped text in '
                     'one <p>. All single tokens and (thorough) all token pairs are enumerated as first and as continuation lines.',
                note='The predicate over-rejects on purpose; its clauses cite the spec sections they implement.'),
    'C16': dict(category='exploration', design_ref='DESIGN.md section 5, C16',
                technique='reference-model monitor over an exhaustively enumerated space of custom-token match pairs; tiling invariant on every token list',
                text='Recording custom span tokens registered through a real renderer return prescribed matches; for every placement of a match Y '
                     'against a fixed match X (all start/end pairs, parse groups, delimiter widths, precedences, parse_inner flags, both '
                     'registration orders; at top level and inside an enclosing token) the resulting token tree must tile the source exactly and '
                     'be one of the outcomes the statement allows; random sets of regex-defined custom types check the tiling clauses.',
                note='Where the statement is silent a set of outcomes is accepted (listed in the assumptions of the evidence file).'),
    'C03': dict(category='exploration', design_ref='DESIGN.md section 5, C03 and section 3.1 (generator G)',
                technique='reference-model monitor: a seeded grammar generator writes tree, spelling and expected HTML independently; the real parser+renderer output is compared after the spec driver\'s normalisation',
                text='Documents are generated from trees of all listed constructs (depth <= 4, ~40 blocks) with the spellings the spec leaves free; '
                     'a systematic sweep puts each leaf construct under every container path of length <= 3. The HTML written straight from '
                     'the tree must equal the rendered HTML (URLs compared as written). ~22k documents quick / ~640k thorough, plus boundary strata pinned by numbered spec examples and by every repaired defect.',
                note='The generator is the trusted base (safety rules R1-R10, each citing a spec clause; tools/genmin.py minimises disagreements '
                     'on the tree for triage). Defect shapes found this way that are not repaired (six at the last count, see known_findings.json) are known findings with pinned witnesses and are switched off in '
                     'the generator so that a NEW disagreement is always reported; repaired ones are switched on and become boundary strata.'),
    'C07': dict(category='exploration', design_ref='DESIGN.md section 5, C07',
                technique='reference-model monitor: first-wins case-folding resolver decides the expected HTML and definition table of generated documents',
                text='Definitions (1-6, with case / whitespace / Unicode-folding label families, escaped titles, angle destinations) are inserted at '
                     'random block boundaries of any nesting level of a generated skeleton; uses in the three reference forms (links and '
                     'images, some labels broken over two lines), near-definitions that must stay text, plus a placement sweep over a fixed '
                     '3-level skeleton. Rendered HTML and Document.footnotes are compared with the model.',
                note='Label normalisation follows the spec text (space/tab/line ending); labels with other whitespace are outside the domain.'),
    'C13': dict(category='exploration', design_ref='DESIGN.md section 5, C13',
                technique='reference-model monitor: the generator records the source line of every block it writes; token line_number attributes are compared',
                text='For generated documents whose token structure equals the generated tree, every block token at any depth (13 classes incl. '
                     'table rows/cells and the header row) must report the line on which the generator wrote its first character; special shapes '
                     '(containers beginning with a blank line, lazy lines, definitions between blocks, leading blank lines) are required to occur. '
                     'Relational form without an expected tree (every third generated document, the 652 spec examples, a hand-written family of '
                     'look-ahead readers in containers): the same text twice in one document - the second copy reports the single parse\'s lines plus the distance.',
                note='Documents whose structure differs are skipped and counted (that is C03\'s verdict).'),
    'C17': dict(category='exploration', design_ref='DESIGN.md section 5, C17',
                technique='taint + structure monitor on the LaTeX output: sentinels round every text-carrying token attribute, strict scan of groups, environments, control words, verbatim terminators and URL arguments',
                text='Every text-carrying attribute of the parsed tree is bracketed with origin-naming sentinels before rendering; the output scanner '
                     'checks group balance, begin/end nesting, a closed control-word vocabulary, that tainted regions contain specials only in '
                     'the renderer\'s escaped forms, that verbatim regions do not contain their terminator and that math regions are well-formed.',
                note='Three call-site findings are listed (Image.src, CodeFence.language, lstlisting terminator). In URL arguments & and _ may stay raw.'),
    'C19': dict(category='exploration', design_ref='DESIGN.md section 5, C19',
                technique='reference-model monitor: outline model (filter, then nest by level) compared with TocRenderer.toc on generated documents x option sets',
                text='Generated documents with 1-10 headings (ATX/setext, in and outside containers) are rendered under random depth / omit_title / '
                     'filter options and the resulting List token is compared entry by entry (text, order, nesting) with the model.',
                note='Documents whose qualifying headings do not form an outline are only counted (nesting is undefined for them).'),
    'C09': dict(category='exploration', design_ref='DESIGN.md section 5, C09',
                technique='relational monitor over recorded executions: x -> MD(x) -> MD(MD(x)), meaning compared through the HTML renderer and the definition table',
                text='For all 652 spec examples and generated documents (canonical and non-canonical spellings; one third in the renderer\'s own '
                     'normal form), under normalize_whitespace False and True: the round-tripped text must render to identical HTML with an '
                     'identical definition table, a second round trip must be byte-identical, and normal-form input must be reproduced byte for byte. '
                     'Deterministic families: underline-like content lines; blank lines made of white space other than space / tab between every pair of block kinds. '
                     'One tree rendered by a normalising and then by a default renderer must give the rendering of a fresh parse.',
                note='The property\'s excluded input classes and three further mechanisms are known findings listed per spec example; the '
                     'generated domain leaves their shapes out (generator switches) so that any other difference is reported.'),
    'C10': dict(category='exploration', design_ref='DESIGN.md section 5, C10',
                technique='relational + output-invariant monitor: reflowed text re-parsed and compared, every over-long output line inspected for a breakable space after its container prefix',
                text='Generated prose documents (rich inline content, nested in quotes and lists to depth 4, with some code blocks, tables, HTML '
                     'blocks and headings) are reflowed for L in {1,2,3,4,5,8,13,21,40,80,120} (quick) / every L in 1..120 (thorough): '
                     'whitespace-normalised HTML unchanged, protected blocks untouched, over-long lines consist of one unbreakable word, '
                     'reflowing again is the identity. The budget-exactly-zero situation is required to occur.',
                note='Words that look like block markers are the property\'s recorded complementary class (one pinned witness).'),
}
