HOOKS = {
    'guard': 'MISTLETOE_VERIF',
    'enable': 'pure Python: nothing to build; ./check exports MISTLETOE_VERIF=1 and imports /repo in a fresh interpreter per shard. '
              'All taps are installed from the harness (attribute replacement, sys.monitoring, icontract); no hook lives in /repo.',
    'baseline_off_cmd': 'cd /repo && env -u MISTLETOE_VERIF /venv/bin/python -m pytest -ra -q -p no:cacheprovider --timeout=900 --continue-on-collection-errors',
    'source_commits': [],
    'add_only': True,
}
NOTES = ('Exit codes of every check: 0 held on everything explored (possibly with KNOWN-FINDING lines), 1 violation '
         '(VIOLATION property=<id> replay=<path>), 2 inconclusive (a shard died, the deciding monitor observed too little). '
         'VERIF_SEED and VERIF_TIER are honoured. Known findings: known_findings.json (read-only at run time).')
NOT_APPLICABLE = {}
CHECKS = {
    'C02': dict(category='exploration', design_ref='DESIGN.md section 5, C02',
                technique='exhaustive corpus replay with reference outputs (spec-driver normalisation)',
                text='All 652 normative examples are executed through the real parser and HTML renderer on every run, in two supply '
                     'forms, and compared with the vendored expected HTML; for this property the finite corpus IS the quantifier, so '
                     'the run is exhaustive.',
                note='Trusts the vendored corpus (sha256 pinned) and the 120-line re-implementation of the spec driver\'s normaliser, '
                     'which is applied to both sides and is only consulted when the bytes differ.'),
}
