#!/bin/bash
# tools/seedall.sh <streams> [--no-pinned]   maintenance: run tools/seedtest.py over every seeded change that still has a patch.diff,
# in <streams> parallel streams (used with `vp run`, which works on a snapshot: the meta.json files it rewrites are the snapshot's).
n=${1:-3}; shift
cd "$(dirname "$0")/.."
mkdir -p out
names=$(for d in seeded/*/; do [ -f "$d/patch.diff" ] && basename "$d"; done)
[ -n "$names" ] || { echo "no seeded changes"; exit 2; }
i=0; for k in $(seq 0 $((n-1))); do : > out/seedall.$k.names; done
for nm in $names; do echo "$nm" >> out/seedall.$((i % n)).names; i=$((i+1)); done
for k in $(seq 0 $((n-1))); do
  [ -s out/seedall.$k.names ] && python3 tools/seedtest.py "$@" $(cat out/seedall.$k.names) > out/seedall.$k.log 2>&1 &
done
wait
cat out/seedall.*.log | grep -c "check_exit=1" | sed 's/^/reported: /'
echo "not reported by the owning check:"
cat out/seedall.*.log | grep -v "check_exit=1" | cut -c1-300
